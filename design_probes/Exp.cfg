CONSTANTS MaxH = 1 Depth = 3
SPECIFICATION Spec
INVARIANT Export
CHECK_DEADLOCK FALSE
