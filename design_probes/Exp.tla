---------------------------- MODULE Exp ----------------------------
EXTENDS Naturals, Sequences, FiniteSets, TLC, Json
CONSTANTS MaxH, Depth
VARIABLES x, hist
vars == <<x, hist>>
Init == x = 0 /\ hist = <<>>
Blk(h) == x' = h /\ hist' = Append(hist, [a |-> "blk", h |-> h, t |-> {h, h+1}])
Mp(h)  == x' = x /\ hist' = Append(hist, [a |-> "mp", h |-> h, t |-> {}])
Next == Len(hist) < Depth /\ \E h \in 0..MaxH : Blk(h) \/ Mp(h)
Spec == Init /\ [][Next]_vars
Export == (Len(hist) = Depth) => PrintT(<<"BEHAVIOUR", ToJson(hist)>>)
=====================================================================
