SPECIFICATION Spec
INVARIANT ViewCorrect
CHECK_DEADLOCK FALSE
