------------------------- MODULE IndexTraceProto -------------------------
EXTENDS Json, IOUtils, TLC, TLCExt, Sequences, SequencesExt, Naturals, FiniteSets
\* one JSON document: [ {tid, chain:[block], steps:[{h, utxos:[[tx,idx,script,value,height]]}]} , ...]
Traces == JsonDeserialize(IOEnv.TRACE_FILE)
VARIABLES tid, l
vars == <<tid, l>>

\* ---- ChainModel oracle, in TLA+ ----
\* block = [txs |-> <<tx>>], tx = [id, ins |-> <<[tx,idx]>>, outs |-> <<[s,v,sp]>>]
ApplyTx(u, tx, height) ==
  LET spent == { <<i.tx, i.idx>> : i \in Range(tx.ins) }
      kept  == { e \in u : <<e[1], e[2]>> \notin spent }
      new   == { <<tx.id, k - 1, tx.outs[k].s, tx.outs[k].v, height>> : k \in { j \in 1..Len(tx.outs) : tx.outs[j].sp } }
  IN kept \cup new
ApplyBlock(u, chain, h) == FoldLeft(LAMBDA acc, tx : ApplyTx(acc, tx, h - 1), u, chain[h].txs)
RECURSIVE UtxoAt(_, _)
UtxoAt(chain, n) == IF n = 0 THEN {} ELSE ApplyBlock(UtxoAt(chain, n - 1), chain, n)

ObsOK(t, k) == LET st == Traces[t].steps[k] IN
   { <<e[1], e[2], e[3], e[4], e[5]>> : e \in Range(st.utxos) } = UtxoAt(Traces[t].chain, st.h + 1)

Init == tid \in 1..Len(Traces) /\ l = 0
Next == /\ l < Len(Traces[tid].steps) /\ l' = l + 1 /\ UNCHANGED tid
Spec == Init /\ [][Next]_vars
ViewCorrect == l > 0 => ObsOK(tid, l)
Accepted == TRUE
==========================================================================
