import os, sys, asyncio, logging, shutil
sys.path.insert(0, '/repo'); sys.path.insert(0, __import__('os').path.dirname(__import__('os').path.abspath(__file__)))
logging.disable(logging.CRITICAL)
import e2e_lib as L
async def run(limit, n, force):
    env, db, daemon, d = L.setup(reorg_limit=str(limit))
    A = L.linear_chain(n); daemon.set_chain(A)
    bp = L.BlockProcessor(env, db, daemon, L.Notifications()); bp.polling_delay = 0.02
    cu = asyncio.Event(); sd = asyncio.Event()
    task = asyncio.ensure_future(bp.fetch_and_process_blocks(cu, sd))
    await cu.wait(); await asyncio.sleep(0.1)
    keys = sorted(int.from_bytes(k[1:], 'big') for k, _ in db.utxo_db.iterator(prefix=b'U'))
    bp.force_chain_reorg(force)
    await asyncio.sleep(0.4)
    res = 'died: ' + type(task.exception()).__name__ if task.done() else f'ok height {db.state.height}'
    if not task.done():
        sd.set(); task.cancel(); await task
    db.utxo_db.close(); db.history.close_db()
    shutil.rmtree(d)
    return keys, res
async def main():
    for limit, n, force in [(2, 6, 1), (2, 6, 2), (2, 6, 3), (1, 6, 1), (1, 6, 2), (10, 4, 3)]:
        print('limit', limit, 'chain height', n-1, 'forced', force, '->', await run(limit, n, force))
asyncio.run(main())
