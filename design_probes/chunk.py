import os, sys, tempfile
sys.path.insert(0, '/repo')
from electrumx.server.block_processor import OnDiskBlock
from electrumx.lib.tx import Tx, TxInput, TxOutput
from electrumx.lib.hash import double_sha256
from electrumx.lib.util import pack_varint

def mk_tx(n, script_len):
    return Tx(1, [TxInput(bytes([n])*32, n, b'\x51'*script_len, 0xffffffff)],
              [TxOutput(n*1000, b'\x76'*3)], 0)

def run(sizes, chunk):
    d = tempfile.mkdtemp(dir='/dev/shm')
    os.makedirs(os.path.join(d, 'meta/blocks'))
    os.chdir(d)
    txs = [mk_tx(i+1, s) for i, s in enumerate(sizes)]
    raws = [t.serialize() for t in txs]
    body = bytes(80) + pack_varint(len(txs)) + b''.join(raws)
    hh = 'ab'*32
    with open(OnDiskBlock.filename(hh, 1), 'wb') as f: f.write(body)
    OnDiskBlock.chunk_size = chunk
    exp = [double_sha256(r) for r in raws]
    res = {}
    for name in ('iter_txs', 'iter_txs_reversed'):
        try:
            with OnDiskBlock(hh, 1, len(body)) as b:
                got = [h for _, h in getattr(b, name)()]
            ok = got == (exp if name == 'iter_txs' else exp[::-1])
            res[name] = ok
        except Exception as e:
            res[name] = f'EXC {type(e).__name__}: {e}'
    os.chdir('/'); __import__('shutil').rmtree(d)
    return res, [len(r) for r in raws]

import logging; logging.disable(logging.CRITICAL)
for sizes, chunk in [([0,0,0], 1000), ([0,0,0], 60), ([100,0,0], 60), ([0,100,0], 60), ([0,0,100], 60), ([100,100], 30), ([0]*3, 10)]:
    print(sizes, chunk, run(sizes, chunk))
