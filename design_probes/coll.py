import sys, time, struct, hashlib
sys.path.insert(0, '/repo')
from electrumx.lib.tx import Tx, TxInput, TxOutput
# family members: fixed input (distinct funding outpoint), fixed output; vary locktime
def template(i):
    tx = Tx(1, [TxInput(bytes([i+1])*32, 0, b'', 0xffffffff)], [TxOutput(1000+i, bytes([0x76, 0x10+i]))], 0)
    raw = tx.serialize()
    return raw[:-4]
def dsha(b): return hashlib.sha256(hashlib.sha256(b).digest()).digest()
t0 = time.time()
N = 3_000_000
tabs = []
for i in range(3):
    pre = template(i); d = {}
    h0 = hashlib.sha256(); h0.update(pre)
    for n in range(N):
        h = h0.copy(); h.update(struct.pack('<I', n))
        p = hashlib.sha256(h.digest()).digest()[:4]
        if i == 0: d[p] = n
        else:
            if p in tabs[i-1]: d[p] = n
    tabs.append(d)
    print(i, len(d), round(time.time()-t0,1), 's')
common = set(tabs[2])
print('3-way prefixes found:', len(common), [ (p.hex(), tabs[0][p], tabs[1][p], tabs[2][p]) for p in list(common)[:3]])
