import os, sys, asyncio, tempfile, struct
sys.path.insert(0, '/repo')
from electrumx.lib.tx import Tx, TxInput, TxOutput
from electrumx.lib.hash import double_sha256, hash_to_hex_str
from electrumx.lib.util import pack_varint
from electrumx.lib.merkle import Merkle
from electrumx.server.env import Env
from electrumx.server.db import DB
from electrumx.server.block_processor import BlockProcessor, OnDiskBlock
from electrumx.server import controller
ZERO = bytes(32)
S = lambda n: bytes([0x76, n])
def coinbase(height, script, value=50, tag=b'cb'):
    return Tx(1, [TxInput(ZERO, 0xffffffff, struct.pack('<I', height) + tag, 0)], [TxOutput(value, script)], 0)
class Block:
    def __init__(self, prev, height, txs, nonce=0):
        self.txs = txs; self.height = height
        raws = [t.serialize() for t in txs]
        self.hashes = [double_sha256(r) for r in raws]
        root = Merkle().root(self.hashes)
        self.header = struct.pack('<I', 1) + prev + root + struct.pack('<III', height, 0, nonce)
        self.hash = double_sha256(self.header)
        self.raw = self.header + pack_varint(len(txs)) + b''.join(raws)
def linear_chain(n, tag=b'cb', base=None):
    chain = list(base or [])
    prev = chain[-1].hash if chain else ZERO
    while len(chain) < n:
        b = Block(prev, len(chain), [coinbase(len(chain), S(1), tag=tag)])
        chain.append(b); prev = b.hash
    return chain
class FakeDaemon:
    def __init__(self): self.chain = []; self._h = None; self.by_hash = {}; self.delay = 0
    def set_chain(self, chain):
        self.chain = chain
        for b in chain: self.by_hash[hash_to_hex_str(b.hash)] = b
    async def height(self):
        if self.delay: await asyncio.sleep(self.delay)
        self._h = len(self.chain) - 1; return self._h
    def cached_height(self): return self._h
    def logged_url(self): return 'fake'
    async def block_hex_hashes(self, first, count):
        if self.delay: await asyncio.sleep(self.delay)
        return [hash_to_hex_str(b.hash) for b in self.chain[first:first+count]]
    async def get_block(self, hex_hash, filename):
        b = self.by_hash[hex_hash]
        with open(filename, 'wb') as f: f.write(b.raw)
        return len(b.raw)
class Notifications(controller.Notifications):
    mp_auto = False
    async def on_block(self, touched, height):
        await super().on_block(touched, height)
        if self.mp_auto: await self.on_mempool(set(), height)
def setup(reorg_limit='5'):
    d = tempfile.mkdtemp(dir='/dev/shm')
    os.environ.update(DB_DIRECTORY=d, DAEMON_URL='http://u:p@localhost:1/', COIN='BitcoinSV', NET='regtest', REORG_LIMIT=reorg_limit, CACHE_MB='10', PEER_DISCOVERY='off', SERVICES='')
    env = Env(); db = DB(env); daemon = FakeDaemon()
    OnDiskBlock.blocks.clear(); OnDiskBlock.tasks.clear()
    return env, db, daemon, d
