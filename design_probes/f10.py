import os, sys, asyncio, logging, shutil, threading
sys.path.insert(0, '/repo'); sys.path.insert(0, __import__('os').path.dirname(__import__('os').path.abspath(__file__)))
logging.disable(logging.CRITICAL)
import electrumx.server.storage as st
park = threading.Event(); parked = threading.Event(); armed = {'on': False}
class VerifLevelDB(st.LevelDB):
    def open(self, name, create):
        super().open(name, create)
        real_wb = self.write_batch
        class WB:
            def __init__(s): s.cm = real_wb()
            def __enter__(s): return s.cm.__enter__()
            def __exit__(s, *a):
                r = s.cm.__exit__(*a)
                if name == 'hist' and armed['on']:
                    armed['on'] = False; parked.set(); park.wait()   # park job 1 right after its history commit
                return r
        self.write_batch = WB
st.VerifLevelDB = VerifLevelDB
os.environ['DB_ENGINE'] = 'verifleveldb'
import e2e_lib as L
async def main():
    env, db, daemon, d = L.setup()
    A = L.linear_chain(5); daemon.set_chain(A[:4])
    bp = L.BlockProcessor(env, db, daemon, L.Notifications()); bp.polling_delay = 0.02
    cu = asyncio.Event(); sd = asyncio.Event()
    task = asyncio.ensure_future(bp.fetch_and_process_blocks(cu, sd))
    await cu.wait(); await asyncio.sleep(0.1)
    hx = env.coin.hashX_from_script(L.S(1))
    print('height', db.state.height, 'hist', len(await db.limited_history(hx)))
    armed['on'] = True
    daemon.set_chain(A)                       # new block 4 -> advance -> on_caught_up -> flush (unlocked)
    while not parked.is_set(): await asyncio.sleep(0.005)
    sd.set(); task.cancel()                   # shutdown arrives while job 1 is inside flush_dbs
    try:
        await asyncio.wait_for(asyncio.shield(task), 2); print('task returned cleanly')
    except Exception as e: print('task ended with', type(e).__name__, e)
    park.set(); await asyncio.sleep(0.3)      # let job 1 finish
    db.utxo_db.close(); db.history.close_db()
    db2 = L.DB(env); await db2.open_for_serving()
    got = await db2.limited_history(hx)
    print('after reopen: height', db2.state.height, 'history len', len(got), 'distinct', len(set(got)), 'DUPLICATES' if len(got) != len(set(got)) else 'ok',
          'hist fc', db2.history.flush_count, 'utxo fc', db2.state.flush_count)
    shutil.rmtree(d)
asyncio.run(main())
