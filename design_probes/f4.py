import sys, asyncio
sys.path.insert(0, '/repo')
from electrumx.server.controller import Notifications
async def run(calls):
    n = Notifications(); out = []
    async def notify(h, t): out.append((h, set(t)))
    for c in calls:
        if c[0] == 'start': await n.start(c[1], notify)
        elif c[0] == 'blk': await n.on_block(set(c[1]), c[2])
        else: await n.on_mempool(set(c[1]), c[2])
    return out, n._touched_mp, n._touched_bp
# A: refresh at 5 straddles block 6
print(asyncio.run(run([('start',5), ('blk','b',6), ('mp','a',5), ('mp','',6)])))
# B: two refreshes at 6 while the flush at 6 is committing (db height visible), then on_block(6)
print(asyncio.run(run([('start',5), ('mp','a',6), ('mp','',6), ('blk','b',6)])))
# C: refresh at 6 (intermediate flush), block report only at 7
print(asyncio.run(run([('start',5), ('mp','a',6), ('blk','b',7), ('mp','',7)])))
