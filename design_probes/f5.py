import os, sys, asyncio, tempfile, logging, shutil, struct
sys.path.insert(0, '/repo'); sys.path.insert(0, __import__('os').path.dirname(__import__('os').path.abspath(__file__)))
logging.disable(logging.CRITICAL)
import e2e_lib as L
from electrumx.server.session import SessionManager
from electrumx.server.mempool import MemPool

async def main():
    env, db, daemon, d = L.setup()
    A = L.linear_chain(4)
    daemon.set_chain(A)
    notes = L.Notifications()
    bp = L.BlockProcessor(env, db, daemon, notes); bp.polling_delay = 0.02
    cu = asyncio.Event(); sd = asyncio.Event()
    task = asyncio.ensure_future(bp.fetch_and_process_blocks(cu, sd))
    await cu.wait()
    class MP:  # minimal mempool stand-in
        async def transaction_summaries(self, hx): return []
    sm = SessionManager(env, db, bp, daemon, MP(), sd)
    asyncio.ensure_future(sm._handle_chain_reorgs())
    await notes.start(db.state.height, sm._notify_sessions)
    notes.mp_auto = True   # report a mempool refresh whenever db height changes (see lib)
    hx = env.coin.hashX_from_script(L.S(1))
    h0, _ = await sm.limited_history(hx)
    print('before: len', len(h0), 'notified_height', sm.notified_height)
    sm._history_cache.clear()
    daemon.delay = 0.05
    assert bp.force_chain_reorg(1)
    # wait for the window: block backed out
    while db.state.height == 3: await asyncio.sleep(0.001)
    hw, _ = await sm.limited_history(hx)      # query inside the reorg window -> cached
    print('in window: db height', db.state.height, 'len', len(hw))
    while db.state.height != 3: await asyncio.sleep(0.001)
    await asyncio.sleep(0.3)                   # let on_block + mempool report + notify run
    h1, _ = await sm.limited_history(hx)
    truth = await db.limited_history(hx)
    print('after: served len', len(h1), 'true len', len(truth), 'notified_height', sm.notified_height, 'STALE' if h1 != truth else 'ok')
    sd.set(); task.cancel(); await task
    shutil.rmtree(d)
asyncio.run(main())
