import sys, asyncio
sys.path.insert(0, '/repo')
from electrumx.lib.merkle import Merkle, MerkleCache
from electrumx.lib.hash import double_sha256
H = lambda tag, i: double_sha256(f'{tag}{i}'.encode())
async def main():
    m = Merkle()
    src = [H('a', i) for i in range(8)]          # heights 0..7 on branch a
    gate = asyncio.Event(); gate.set()
    async def source(start, count):
        out = src[start:start + count]           # the read executes now ...
        await gate.wait()                        # ... and is delivered later
        return out
    mc = MerkleCache(m, source)
    await mc.initialize(4)                        # as populate_header_merkle_cache: height - reorg_limit
    gate.clear()
    inflight = asyncio.ensure_future(mc.branch_and_root(8, 0))   # block.header with cp_height=7
    await asyncio.sleep(0)
    # reorg: heights 6,7 orphaned; backup_fs truncates (no-ops here: 7,6 >= cache length 4)
    mc.truncate(7); mc.truncate(6)
    src[6:] = [H('b', 6), H('b', 7), H('b', 8)]   # new branch, now height 8
    gate.set()
    try: await inflight
    except Exception as e: print('in-flight request:', type(e).__name__, e)
    # quiescent request
    try:
        branch, root = await mc.branch_and_root(9, 0)
        print('root ok' if root == m.root(src[:9]) else 'WRONG ROOT at quiescence')
    except Exception as e: print('quiescent request raised', type(e).__name__, e)
    try:
        branch, root = await mc.branch_and_root(9, 6)
        print('root ok' if root == m.root(src[:9]) else 'WRONG ROOT at quiescence (idx 6)')
    except Exception as e: print('quiescent request idx 6 raised', type(e).__name__, e)
asyncio.run(main())
