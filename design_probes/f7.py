import os, sys, asyncio, logging, shutil
sys.path.insert(0, '/repo'); sys.path.insert(0, __import__('os').path.dirname(__import__('os').path.abspath(__file__)))
logging.disable(logging.CRITICAL)
import e2e_lib as L
class Crash(BaseException): pass
async def run_until(bp, cond, timeout=3):
    cu = asyncio.Event(); sd = asyncio.Event()
    task = asyncio.ensure_future(bp.fetch_and_process_blocks(cu, sd))
    return task, cu, sd
async def main():
    env, db, daemon, d = L.setup()
    A = L.linear_chain(4); daemon.set_chain(A)
    bp = L.BlockProcessor(env, db, daemon, L.Notifications()); bp.polling_delay = 0.02
    task, cu, sd = await run_until(bp, None)
    await cu.wait()
    hx = env.coin.hashX_from_script(L.S(1))
    print('before', len(await db.limited_history(hx)), 'height', db.state.height)
    # crash between history rollback and UTXO rollback of the forced reorg
    real = db.flush_utxo_db
    def boom(fd): raise Crash()
    db.flush_utxo_db = boom
    bp.force_chain_reorg(1)
    try:
        await asyncio.wait_for(task, 2)
    except BaseException as e:
        print('process died with', type(e).__name__)
    db.utxo_db.close(); db.history.close_db()
    # restart; daemon chain never changed
    L.OnDiskBlock.blocks.clear(); L.OnDiskBlock.tasks.clear()
    db2 = L.DB(env)
    bp2 = L.BlockProcessor(env, db2, daemon, L.Notifications()); bp2.polling_delay = 0.02
    task2, cu2, sd2 = await run_until(bp2, None)
    await cu2.wait()
    got = await db2.limited_history(hx)
    print('after restart: height', db2.state.height, 'history len', len(got), 'expected 4', 'HOLE' if len(got) != 4 else 'ok')
    sd2.set(); task2.cancel(); await task2
    shutil.rmtree(d)
asyncio.run(main())
