import sys, os, asyncio, tempfile, json, logging, shutil
sys.path.insert(0, '/repo')
logging.disable(logging.CRITICAL)
from aiorpcx import NetAddress
from aiorpcx.session import SessionKind
from electrumx.server.env import Env
from electrumx.server.db import DB
from electrumx.server.session import SessionManager, ElectrumX
from electrumx.server.mempool import MemPool, MemPoolAPI

class Transport:
    kind = SessionKind.SERVER
    def __init__(self): self.out = []; self.closed = False
    async def write(self, message): self.out.append(message)
    def remote_address(self): return NetAddress('1.2.3.4', 5555)
    def proxy(self): return None
    def is_closing(self): return self.closed
    async def abort(self): self.closed = True
    async def close(self, force_after=None): self.closed = True

class BP:
    backed_up_event = asyncio.Event()
class Daemon:
    def logged_url(self): return 'x'
    def cached_height(self): return 0
class API(MemPoolAPI):
    async def height(self): return 0
    def cached_height(self): return 0
    def db_height(self): return 0
    async def mempool_hashes(self): return []
    async def raw_transactions(self, h): return []
    async def lookup_utxos(self, p): return []
    async def on_mempool(self, t, h): pass

async def main():
    d = tempfile.mkdtemp(dir='/dev/shm')
    os.environ.update(DB_DIRECTORY=d, DAEMON_URL='http://u:p@localhost:1/', COIN='BitcoinSV', NET='regtest', PEER_DISCOVERY='off', SERVICES='')
    env = Env(); db = DB(env); await db.open_for_serving()
    mp = MemPool(env.coin, API())
    sm = SessionManager(env, db, BP(), Daemon(), mp, asyncio.Event())
    tr = Transport()
    s = ElectrumX(sm, db, mp, sm.peer_mgr, 'TCP', tr)
    q = asyncio.Queue()
    async def recv(): 
        m = await q.get()
        if m is None:
            from aiorpcx.rawsocket import ConnectionLost
            raise ConnectionLost()
        return m
    task = asyncio.ensure_future(s.process_messages(recv))
    for i, raw in enumerate([
        b'{"jsonrpc":"2.0","id":1,"method":"server.version","params":["x","1.4"]}',
        b'{"jsonrpc":"2.0","id":2,"method":"blockchain.block.header","params":[Infinity]}',
        b'{"jsonrpc":"2.0","id":3,"method":"blockchain.block.headers","params":[0, 1' + b'0'*400 + b']}',
        b'{"jsonrpc":"2.0","id":4,"method":"blockchain.scripthash.subscribe","params":["' + b'ab'*32 + b'"]}',
        b'{"jsonrpc":"2.0","id":5,"method":"blockchain.scripthash.get_history","params":[[1,2]]}',
    ]):
        await q.put(raw)
    await asyncio.sleep(0.3)
    for m in tr.out: print(m[:200])
    print('subs', s.hashX_subs)
    await q.put(None); await asyncio.sleep(0.05)
    shutil.rmtree(d)
asyncio.run(main())
