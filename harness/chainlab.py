'''Tx-slot universe shared by the TLA+ models and the real code.

The TLA+ side sees small integers: scripts 1..7, regular tx slots 1..K, the coinbase of
block id b as slot 100 + b.  This module turns slots and blocks into real transactions,
headers and raw blocks, and generates the TLA+ module Universe.tla from the same table, so
the two sides cannot drift apart.
'''
import hashlib
import json
import os
import struct

HOME = os.environ.get('VERIF_HOME', os.path.dirname(os.path.dirname(os.path.abspath(__file__))))
DATA = os.path.join(HOME, 'harness', 'data')
ZERO = bytes(32)
CB = 100            # coinbase of block id b is slot CB + b

# script ids -> bytes.  5: bare OP_RETURN, 6: OP_FALSE OP_RETURN, 7: empty script
SCRIPTS = {
    1: bytes([0x76, 0xa9, 0x01, 0x01, 0x88, 0xac]),
    2: bytes([0x76, 0xa9, 0x01, 0x02, 0x88, 0xac]),
    3: bytes([0x76, 0xa9, 0x01, 0x03, 0x88, 0xac]),
    4: bytes([0x76, 0xa9, 0x01, 0x04, 0x88, 0xac]),
    5: bytes([0x6a, 0x04]) + b'data',
    6: bytes([0x00, 0x6a, 0x04]) + b'data',
    7: b'',
}
KIND = {5: 'opret', 6: 'fopret'}

# genesis coinbase funding outputs: (script, value)
FUNDING = [(1, 10), (2, 20), (3, 30), (1, 40), (2, 50), (3, 60), (1, 70), (2, 80)]

# regular slots: ins = [(slot, idx)], outs = [(script, value)], fam = collision family (0 none)
SLOTS = {
    1: dict(ins=[(CB, 0)], outs=[(1, 4), (2, 5)], fam=0),
    2: dict(ins=[(1, 0)], outs=[(3, 3)], fam=0),
    3: dict(ins=[(2, 0)], outs=[(1, 2)], fam=0),
    4: dict(ins=[(CB, 1)], outs=[(1, 19)], fam=1),
    5: dict(ins=[(CB, 2)], outs=[(2, 29)], fam=1),
    6: dict(ins=[(CB, 3)], outs=[(3, 39)], fam=1),
    7: dict(ins=[(4, 0)], outs=[(3, 18)], fam=0),
    8: dict(ins=[(5, 0)], outs=[(1, 28)], fam=0),
    9: dict(ins=[(CB, 4)], outs=[(5, 0), (6, 0), (7, 7), (1, 0), (1, 1), (1, 1)], fam=0),
    10: dict(ins=[(9, 0)], outs=[(2, 0)], fam=0),
    11: dict(ins=[(CB, 5), (CB, 6)], outs=[(1, 100), (3, 29)], fam=0),
    12: dict(ins=[(9, 3), (9, 4)], outs=[(1, 1)], fam=0),
    13: dict(ins=[(CB, 7), (1, 1)], outs=[(3, 84)], fam=0),     # one confirmed input, one from tx 1
}
MINER = 4


def dsha(b):
    return hashlib.sha256(hashlib.sha256(b).digest()).digest()


def varint(n):
    if n < 253:
        return bytes([n])
    if n < 65536:
        return b'\xfd' + struct.pack('<H', n)
    return b'\xfe' + struct.pack('<I', n)


def ser_tx(inputs, outputs, locktime, version=1):
    '''inputs: [(prev_hash, idx, script, seq)], outputs: [(value, script)].'''
    out = [struct.pack('<i', version), varint(len(inputs))]
    for ph, idx, script, seq in inputs:
        out += [ph, struct.pack('<I', idx), varint(len(script)), script, struct.pack('<I', seq)]
    out.append(varint(len(outputs)))
    for value, script in outputs:
        out += [struct.pack('<q', value), varint(len(script)), script]
    out.append(struct.pack('<I', locktime))
    return b''.join(out)


def merkle_root(hashes):
    hashes = list(hashes)
    while len(hashes) > 1:
        if len(hashes) & 1:
            hashes.append(hashes[-1])
        hashes = [dsha(hashes[k] + hashes[k + 1]) for k in range(0, len(hashes), 2)]
    return hashes[0]


class Universe:
    '''Concrete transactions of the slot table (with mined collision nonces).'''

    def __init__(self):
        self.nonces = self._load_nonces()
        self.raw = {}
        self.hash = {}
        self.slot_of_hash = {}
        self._cb_cache = {}
        self.genesis_cb = self._coinbase_raw(0, 0)
        self._register(CB, self.genesis_cb)
        for s in sorted(SLOTS):
            self._register(s, self._slot_raw(s))
        fams = {}
        for s, d in SLOTS.items():
            if d['fam']:
                fams.setdefault(d['fam'], []).append(self.hash[s][:4])
        self.collisions_ok = all(len(set(v)) == 1 for v in fams.values())

    def _load_nonces(self):
        try:
            with open(os.path.join(DATA, 'collisions.json')) as f:
                return {int(k): v for k, v in json.load(f).items()}
        except FileNotFoundError:
            return {}

    def _register(self, slot, raw):
        self.raw[slot] = raw
        self.hash[slot] = dsha(raw)
        self.slot_of_hash[self.hash[slot]] = slot

    def _coinbase_raw(self, bid, height, cb=None):
        tag = struct.pack('<I', height) + b'/verif/' + struct.pack('<H', bid)
        pays = FUNDING if bid == 0 else (cb if cb is not None else [(MINER, 50)])
        return ser_tx([(ZERO, 0xffffffff, tag, 0xffffffff)], [(v, SCRIPTS[s]) for s, v in pays], 0)

    def _slot_raw(self, s, nonce=None):
        d = SLOTS[s]
        ins = [(self.hash[p], i, b'', 0xffffffff) for p, i in d['ins']]
        outs = [(v, SCRIPTS[sc]) for sc, v in d['outs']]
        if nonce is None:
            nonce = self.nonces.get(s, s)
        return ser_tx(ins, outs, nonce)

    def coinbase(self, bid, height, cb=None):
        '''Raw coinbase of block id bid (at the given height, paying cb) and its slot id.'''
        if bid == 0:
            return CB, self.genesis_cb
        key = (bid, height, tuple(map(tuple, cb)) if cb is not None else None)
        if key not in self._cb_cache:
            self._cb_cache[key] = self._coinbase_raw(bid, height, cb)
        # (re-)register: the same block id sits at different heights in different scenarios
        self._register(CB + bid, self._cb_cache[key])
        return CB + bid, self._cb_cache[key]

    def slot_from_hash(self, h):
        return self.slot_of_hash.get(bytes(h), 0)

    @staticmethod
    def script_of_hashx(coin):
        return {coin.hashX_from_script(b): s for s, b in SCRIPTS.items()}


class Block:
    def __init__(self, uni, bid, parent, height, slots, cb=None, fill=0):
        '''slots: regular tx slots of the block in order (coinbase is added in front);
        cb: outputs [(script, value)] of the coinbase (default: 50 to the miner script).'''
        self.bid = bid
        self.parent = parent
        self.height = height
        self.cb = [list(x) for x in (FUNDING if bid == 0 else (cb if cb is not None else [(MINER, 50)]))]
        cb_slot, cb_raw = uni.coinbase(bid, height, cb)
        self.slots = [cb_slot] + list(slots)
        raws = [cb_raw] + [uni.raw[s] for s in slots]
        # filler: generation-like transactions (no prevouts to resolve), unique per block and position
        self.fill = [ser_tx([(ZERO, 0xffffffff, b'fill' + struct.pack('<HI', bid, k), 0)], [(1 + k, SCRIPTS[3])], k)
                     for k in range(fill)]
        raws += self.fill
        self.tx_hashes = [dsha(r) for r in raws]
        prev = parent.hash if parent is not None else ZERO
        self.header = (struct.pack('<I', 1) + prev + merkle_root(self.tx_hashes)
                       + struct.pack('<III', 1600000000 + height, 0x207fffff, bid))
        self.hash = dsha(self.header)
        self.hex_hash = self.hash[::-1].hex()
        self.raw = self.header + varint(len(raws)) + b''.join(raws)


class Tree:
    '''Block tree as the model sees it: ids 0.. with parent / height / regular slots.'''

    def __init__(self, uni):
        self.uni = uni
        self.blocks = {}
        self.by_hex = {}
        self.add(0, None, [])

    def add(self, bid, parent_bid, slots, cb=None, fill=0):
        parent = self.blocks[parent_bid] if parent_bid is not None else None
        height = parent.height + 1 if parent else 0
        b = Block(self.uni, bid, parent, height, slots, cb, fill)
        self.blocks[bid] = b
        self.by_hex[b.hex_hash] = b
        return b

    def chain(self, tip_bid):
        out = []
        b = self.blocks[tip_bid]
        while b is not None:
            out.append(b)
            b = b.parent
        return out[::-1]


# ---------------------------------------------------------------------------------------
def tla_universe(active=None):
    '''Text of Universe.tla (generated): the slot table as TLA+ definitions.'''
    def seq(items):
        return '<<' + ', '.join(items) + '>>'
    lines = ['------------------------------ MODULE Universe ------------------------------',
             '(* GENERATED by harness/chainlab.py from the slot table - do not edit.          *)',
             '(* Regular tx slots 1..K, coinbase of block id b = CB + b, scripts 1..7          *)',
             '(* (5 = bare OP_RETURN, 6 = OP_FALSE OP_RETURN, 7 = empty script).               *)',
             'EXTENDS Integers, Sequences',
             f'CB == {CB}',
             f'AllSlots == {{{", ".join(str(s) for s in sorted(SLOTS))}}}',
             'Scripts == 1..7',
             f'Miner == {MINER}',
             'Funding == ' + seq(f'[s |-> {s}, v |-> {v}]' for s, v in FUNDING)]
    ins = ' [] '.join(f't = {s} -> ' + seq(f'<<{p}, {i}>>' for p, i in d['ins']) for s, d in sorted(SLOTS.items()))
    outs = ' [] '.join(f't = {s} -> ' + seq(f'[s |-> {sc}, v |-> {v}]' for sc, v in d['outs'])
                       for s, d in sorted(SLOTS.items()))
    fam = ' [] '.join(f't = {s} -> {d["fam"]}' for s, d in sorted(SLOTS.items()))
    lines += [f'SlotIns(t) == CASE {ins}',
              f'SlotOuts(t) == CASE {outs}',
              f'SlotFam(t) == CASE {fam}',
              '(* inputs / outputs of any tx id (regular slot or coinbase) *)',
              'TxIns(t) == IF t >= CB THEN <<>> ELSE SlotIns(t)',
              'TxOuts(t) == IF t = CB THEN Funding ELSE IF t > CB THEN <<[s |-> Miner, v |-> 50]>> ELSE SlotOuts(t)',
              '(* compressed-hash class: slots of one family share the 4-byte prefix *)',
              'Pfx(t) == IF t >= CB THEN 1000 + t ELSE IF SlotFam(t) > 0 THEN 2000 + SlotFam(t) ELSE 1000 + t',
              '=============================================================================']
    return '\n'.join(lines) + '\n'


def mine_collisions(verbose=True):
    '''Find locktime nonces for the family slots so that their hashes share 4 bytes.'''
    uni = Universe.__new__(Universe)
    uni.nonces = {}
    uni.raw, uni.hash, uni.slot_of_hash, uni._cb_cache = {}, {}, {}, {}
    uni.genesis_cb = uni._coinbase_raw(0, 0)
    uni._register(CB, uni.genesis_cb)
    for s in sorted(SLOTS):
        uni._register(s, uni._slot_raw(s, s))
    fam = sorted(s for s, d in SLOTS.items() if d['fam'] == 1)
    a, b, c = fam

    def hashes(slot, n, start=0):
        raw = uni._slot_raw(slot, 0)[:-4]
        sha = hashlib.sha256
        for nonce in range(start, start + n):
            yield nonce, sha(sha(raw + struct.pack('<I', nonce)).digest()).digest()[:4]

    N = 3_000_000
    da = {}
    for nonce, p in hashes(a, N):
        da[p] = nonce
    if verbose:
        print('family: first member table built')
    dab = {}
    for nonce, p in hashes(b, N):
        if p in da:
            dab[p] = (da[p], nonce)
    del da
    if verbose:
        print(f'family: {len(dab)} two-way collisions')
    for nonce, p in hashes(c, 1 << 32):
        if p in dab:
            res = {a: dab[p][0], b: dab[p][1], c: nonce}
            break
    os.makedirs(DATA, exist_ok=True)
    with open(os.path.join(DATA, 'collisions.json'), 'w') as f:
        json.dump({str(k): v for k, v in res.items()}, f)
    if verbose:
        print('family nonces', res)
    return res


if __name__ == '__main__':
    import sys
    if sys.argv[1:] == ['mine']:
        mine_collisions()
        u = Universe()
        print('collisions ok:', u.collisions_ok)
    else:
        print(tla_universe())
