'''Full stack: real BlockProcessor, DB, MemPool, Notifications, SessionManager and ElectrumX
sessions (raw JSON in / out over fake transports) against the fake daemon on the deterministic
loop.  Every daemon call is a gate and every worker-thread job (DB reads of sessions included)
is executed and delivered as two separate steps, so client requests can be placed anywhere
relative to flushes, reorg windows and notifications.
'''
import asyncio
import hashlib
import itertools
import json

from harness.detloop import NoProgress
from harness.chainlab import SCRIPTS, SLOTS, CB
from harness.mempoollab import MempoolRun
from harness.indexlab import StopRun


class Transport:
    def __init__(self, lab, name):
        from aiorpcx.session import SessionKind
        self.kind = SessionKind.SERVER
        self.lab = lab
        self.name = name
        self.out = []
        self.closed = False

    async def write(self, message):
        msg = json.loads(message.decode())
        self.out.append(msg)
        self.lab.on_client_message(self.name, msg)

    def remote_address(self):
        from aiorpcx import NetAddress
        return NetAddress('8.8.4.4', 5555)

    def proxy(self):
        return None

    def is_closing(self):
        return self.closed

    async def abort(self):
        self.closed = True

    async def close(self, force_after=None):
        self.closed = True


class Client:
    '''What one Electrum client holds.'''

    def __init__(self, lab, name):
        self.lab = lab
        self.name = name
        self.transport = Transport(lab, name)
        self.queue = asyncio.Queue()
        self.next_id = 1
        self.replies = {}
        self.status = {}        # script id -> last status held (subscribe reply or notification)
        self.subs = set()
        self.header = None
        self.pending = {}       # request id -> (method, params)
        self.session = None


class NotifyBegun(Exception):
    '''_notify_sessions has been entered and waits for its header refresh (the schedule asked to stop there).'''


class FullStack(MempoolRun):
    def __init__(self, events=(), **kw):
        super().__init__(events, **kw)
        self.clients = {}
        self.boundary = []          # calls at the Notifications boundary (C20 environment validation)
        self.notes_sent = []        # notifications with the index state at the time they were written
        self.serving = False

    # ------------------------------------------------------------------ wiring
    def make_notes(self):
        from electrumx.server.controller import Notifications
        lab = self

        class RecNotifications(Notifications):
            async def on_block(self, touched, height):
                lab.boundary.append({'ev': 'blk', 'h': height, 'n': len(touched)})
                lab.on_block_calls.append((height, set(touched)))
                await super().on_block(touched, height)

            async def on_mempool(self, touched, height):
                lab.boundary.append({'ev': 'mp', 'h': height, 'n': len(touched)})
                await super().on_mempool(touched, height)

            async def start(self, height, notify_func):
                lab.boundary.append({'ev': 'start', 'h': height, 'n': 0})
                await super().start(height, notify_func)
        return RecNotifications()

    async def forward_on_mempool(self, touched, height):
        await self.notes.on_mempool(touched, height)

    def boot(self):
        super().boot()
        from electrumx.server.session import SessionManager
        self.sm = SessionManager(self.env, self.db, self.bp, self.daemon, self.mempool, self.shutdown_event)
        real_notify = self.sm._notify_sessions
        lab = self

        async def notify_sessions(height, touched):
            lab.boundary.append({'ev': 'note', 'h': height, 'n': len(touched)})
            lab.notes_sent.append({'h': height, 'stored': lab.db.state.height, 'window': bool(lab.window)})
            lab.in_notify += 1
            try:
                await real_notify(height, touched)
            finally:
                lab.in_notify -= 1
        self.sm._notify_sessions = notify_sessions
        # the header refresh at the start of _notify_sessions is a suspension point (it reads the header through a worker
        # job): when the schedule asks for it, the refresh is held back there by a gate - the same as a slow worker
        real_refresh = self.sm._refresh_hsub_results
        self.in_notify = 0
        self.split_notify = False

        async def refresh(height):
            if lab.split_notify and lab.in_notify:
                from harness.detloop import Gate
                await Gate(lab.loop, 'nbegin', lab.gates).future
            await real_refresh(height)
        self.sm._refresh_hsub_results = refresh

    def check_split(self):
        if any(g.name == 'nbegin' for g in self.gates):
            raise NotifyBegun()

    def start_serving(self):
        '''What SessionManager.serve does once the mempool is synchronised.'''
        cls = self.env.coin.SESSIONCLS
        cls.cost_soft_limit = self.env.cost_soft_limit
        cls.cost_hard_limit = self.env.cost_hard_limit
        cls.cost_decay_per_sec = cls.cost_hard_limit / 10000
        cls.bw_cost_per_byte = 1.0 / self.env.bw_unit_cost
        cls.cost_sleep = self.env.request_sleep / 1000
        cls.initial_concurrent = self.env.initial_concurrent
        cls.processing_timeout = self.env.request_timeout
        self.run_coro(self.notes.start(self.db.state.height, self.sm._notify_sessions))
        self.reorg_task = self.loop.create_task(self.sm._handle_chain_reorgs())
        self.run_coro(self.db.populate_header_merkle_cache())
        self.serving = True

    def connect(self, name):
        cls = self.env.coin.SESSIONCLS
        c = Client(self, name)
        c.session = cls(self.sm, self.db, self.mempool, self.sm.peer_mgr, 'TCP', c.transport)

        async def recv():
            m = await c.queue.get()
            if m is None:
                from aiorpcx.rawsocket import ConnectionLost
                raise ConnectionLost()
            return m
        c.task = self.loop.create_task(c.session.process_messages(recv))
        self.clients[name] = c
        self.request(name, 'server.version', ['verif', '1.4.2'])
        return c

    # ------------------------------------------------------------------ client side
    def scripthash(self, s):
        return hashlib.sha256(SCRIPTS[s]).digest()[::-1].hex()

    def script_of_scripthash(self, sh):
        for s, b in SCRIPTS.items():
            if hashlib.sha256(b).digest()[::-1].hex() == sh:
                return s
        return 0

    def request(self, name, method, params, raw=None):
        c = self.clients[name]
        rid = c.next_id
        c.next_id += 1
        c.pending[rid] = (method, params)
        msg = raw if raw is not None else json.dumps({'jsonrpc': '2.0', 'id': rid, 'method': method, 'params': params}).encode()
        c.queue.put_nowait(msg)
        return rid

    def on_client_message(self, name, msg):
        c = self.clients[name]
        if 'method' in msg:           # a notification
            if msg['method'] == 'blockchain.scripthash.subscribe':
                sh, status = msg['params']
                c.status[self.script_of_scripthash(sh)] = status
            elif msg['method'] == 'blockchain.headers.subscribe':
                c.header = msg['params'][0]
            return
        rid = msg.get('id')
        c.replies[rid] = msg
        method, params = c.pending.pop(rid, (None, None))
        if method == 'blockchain.scripthash.subscribe' and 'result' in msg:
            s = self.script_of_scripthash(params[0])
            c.status[s] = msg['result']
            c.subs.add(s)
        elif method == 'blockchain.scripthash.subscribe' and 'error' in msg:
            s = self.script_of_scripthash(params[0])
            c.subs.discard(s)
            c.status.pop(s, None)
        elif method == 'blockchain.scripthash.unsubscribe' and msg.get('result'):
            s = self.script_of_scripthash(params[0])
            c.subs.discard(s)
            c.status.pop(s, None)
        elif method == 'blockchain.headers.subscribe' and 'result' in msg:
            c.header = msg['result']

    # ------------------------------------------------------------------ micro steps
    def session_jobs(self):
        return [j for j in self.loop.pending_jobs()
                if not any(k in j.name for k in ('advance_block', 'flush_dbs', 'backup_block', 'lookup_hashXs',
                                                 'lookup_utxos', 'deserialize', 'delete'))
                and not (self.window and j is self.window['job'])]

    def bp_jobs(self):
        return [j for j in self.loop.pending_jobs()
                if any(k in j.name for k in ('advance_block', 'flush_dbs', 'backup_block', 'delete'))
                and not (self.window and j is self.window['job'])]

    def check_tasks(self):
        if self.task.done():
            exc = None if self.task.cancelled() else self.task.exception()
            self.steps.append(self.classify_death(exc))
            raise StopRun()
        if self.mp_task is not None and self.mp_task.done():
            exc = None if self.mp_task.cancelled() else self.mp_task.exception()
            self.steps.append({'ev': 'raised', 'exc': repr(exc)[:200]})
            raise StopRun()

    def micro(self, kind):
        '''One step of one component.  Returns False when that component has nothing to do.'''
        self.loop.run_until_idle()
        self.check_tasks()
        self.check_split()
        if kind == 'bp':
            jobs = self.bp_jobs()
            if jobs:
                self.before_bp_job(jobs[0])
                jobs[0].execute()
                jobs[0].deliver()
                self.loop.run_until_idle()
                return True
            g = next((x for x in self.gates if x.name in ('height', 'lookback', 'caughtup')), None)
            if g:
                if g.name == 'height' and self.tree.blocks[self.best].height > self.bp.state.height:
                    self.fresh = True
                g.release()
                self.loop.run_until_idle()
                return True
            # the block processor reads headers itself during a reorg (and notifications read through
            # worker jobs while it waits for the fan-out): jobs the schedule is not holding back
            other = [j for j in self.session_jobs() if j not in getattr(self, 'hold', ())]
            if other:
                other[0].deliver()
                self.loop.run_until_idle()
                return True
            return False
        if kind == 'mp':
            return self.pump_mempool_once()
        if kind == 'sess_exec':
            for j in self.session_jobs():
                if not j.executed:
                    j.execute()
                    return True
            return False
        if kind == 'sess':
            jobs = self.session_jobs()
            if jobs:
                jobs[0].deliver()
                self.loop.run_until_idle()
                return True
            return False
        if kind == 'timer':
            return self.loop.advance()
        raise ValueError(kind)

    def bp_idle(self):
        tip = self.tree.blocks[self.best]
        return (self.bp.caught_up and self.bp.reorg_count is None and self.db.state.height == tip.height
                and bytes(self.db.state.tip) == tip.hash and not self.bp_jobs()
                and any(g.name == 'height' for g in self.gates))

    def quiesce(self):
        '''Index at the daemon's tip, mempool refreshed at that height after the last change,
        notifications delivered, no request in flight.'''
        for rnd in range(12):
            before = (len(self.boundary), sum(len(c.transport.out) for c in self.clients.values()))
            self.close_window()
            self.sync_index()
            self.finish_refresh()
            self.full_refresh()
            for _ in range(4):              # one more poll of the block processor (on_caught_up reports again)
                self.micro('bp')
            self.sync_index()
            self.full_refresh()
            for _ in range(200):
                if not self.micro('sess'):
                    break
            self.loop.run_until_idle()
            after = (len(self.boundary), sum(len(c.transport.out) for c in self.clients.values()))
            if rnd >= 1 and self.bp_idle() and not self.session_jobs() and after[1] == before[1]:
                return
        raise NoProgress('quiesce: the stack does not come to rest')

    # ------------------------------------------------------------------ oracle helpers (hashing only)
    @staticmethod
    def statuses_of(conf, mem):
        '''All acceptable statuses for a confirmed history (ordered) and a mempool part (any order).'''
        if not conf and not mem:
            return [None]
        head = ''.join(f'{h}:{ht:d}:' for h, ht in conf)
        out = []
        for perm in itertools.permutations(mem):
            s = head + ''.join(f'{h}:{ht:d}:' for h, ht in perm)
            out.append(hashlib.sha256(s.encode()).hexdigest())
        return out

    def ask(self, name, method, params):
        '''Synchronous request at a point where nothing else is going on.'''
        rid = self.request(name, method, params)
        for _ in range(400):
            self.loop.run_until_idle()
            c = self.clients[name]
            if rid in c.replies:
                return c.replies[rid]
            if not self.micro('sess'):
                if not self.micro('timer'):
                    break
        raise RuntimeError(f'no reply to {method} {params}')

    def hex_to_slot(self, hx):
        return self.uni.slot_from_hash(bytes.fromhex(hx)[::-1])

    def observe_quiescent(self, label='quiescent'):
        '''Everything a client can ask at quiescence, plus what every client holds.'''
        if 'probe' not in self.clients:
            self.connect('probe')
            self.quiesce()
        st = {'ev': label, 'chain': [b.bid for b in self.tree.chain(self.best)], 'pool': sorted(self.pool)}
        answers = []
        for s in sorted(SCRIPTS):
            sh = self.scripthash(s)
            hist = self.ask('probe', 'blockchain.scripthash.get_history', [sh])
            bal = self.ask('probe', 'blockchain.scripthash.get_balance', [sh])
            uns = self.ask('probe', 'blockchain.scripthash.listunspent', [sh])
            mem = self.ask('probe', 'blockchain.scripthash.get_mempool', [sh])
            if any('error' in r for r in (hist, bal, uns, mem)):
                answers.append([s, -1, [], [], 0, 0, [], []])
                st.setdefault('errors', []).append(str([r.get('error') for r in (hist, bal, uns, mem)])[:300])
                continue
            conf = [(x['tx_hash'], x['height']) for x in hist['result'] if 'fee' not in x]
            unconf = [(x['tx_hash'], x['height']) for x in hist['result'] if 'fee' in x]
            acceptable = self.statuses_of(conf, unconf)
            answers.append([s, 0,
                            [[self.hex_to_slot(h), ht] for h, ht in conf],
                            sorted([self.hex_to_slot(h), -ht] for h, ht in unconf),
                            bal['result']['confirmed'], bal['result']['unconfirmed'],
                            sorted([self.hex_to_slot(u['tx_hash']), u['tx_pos'], u['height'], u['value']] for u in uns['result']),
                            sorted([self.hex_to_slot(x['tx_hash']), -x['height'], x['fee']] for x in mem['result'])])
            st.setdefault('acceptable', {})[s] = acceptable
        st['answers'] = answers
        # by-height queries
        byh = []
        tiph = self.tree.blocks[self.best].height
        for h in range(tiph + 2):
            row = []
            if h <= tiph:
                # a proof request first: it works on the cached list of the block's tx hashes, which must come out unchanged
                self.ask('probe', 'blockchain.transaction.id_from_pos', [h, 0, True])
            for pos in range(0, 6):
                r = self.ask('probe', 'blockchain.transaction.id_from_pos', [h, pos])
                row.append(self.hex_to_slot(r['result']) if 'result' in r else -1)
            byh.append(row)
        st['byh'] = byh
        held = []
        for name, c in sorted(self.clients.items()):
            if name == 'probe':
                continue
            for s in sorted(c.subs):
                ok = c.status.get(s) in st.get('acceptable', {}).get(s, [])
                held.append([name, s, 1 if ok else 0])
            if c.header is not None:
                b = None
                try:
                    hdr = bytes.fromhex(c.header['hex'])
                    b = self.tree.by_hex.get(self.coin.header_hash(hdr)[::-1].hex())
                except Exception:
                    pass
                held.append([name, 0, 1 if (b is not None and b.bid == self.best and c.header['height'] == b.height) else 0])
        st['held'] = held
        st.pop('acceptable', None)
        st['early'] = [n for n in self.notes_sent if n['stored'] < n['h'] or n['window']]
        self.steps.append(st)
        return st
