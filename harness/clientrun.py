'''Drives the full stack (harness.clientlab.FullStack) along a behaviour of Client.tla or a
random schedule, observing at quiescence.'''
from harness.chainlab import SLOTS
from harness.clientlab import FullStack, NotifyBegun
from harness.indexlab import StopRun

X_SLOTS = [1, 4, 11, 3, 8]


class ClientRun(FullStack):
    def __init__(self, job):
        # a base chain high enough for look-backs and a reorg limit no schedule here exceeds: process
        # deaths for lack of undo information or at the genesis block are C03 / C15 matters
        super().__init__([], pre=[[], [], [], [], [], []], reorg_limit=50)
        self.job = job
        self.sess_jobs = []          # session read jobs in creation order
        self.hold = set()            # read jobs whose execution / delivery the schedule decides

    def before_bp_job(self, job):
        # right before a block is undone a client asks by height for that block and the one below (still indexed: the
        # answers are theirs); whatever that leaves in the by-height caches must not survive the reorganisation
        if 'backup_block' not in job.name or not self.serving or 'a' not in self.clients or getattr(self, '_poking', False):
            return
        self._poking = True
        try:
            h = self.db.state.height
            for hh in (h, h - 1):
                if hh < 1:
                    continue
                rid = self.request('a', 'blockchain.transaction.id_from_pos', [hh, 0, True])
                for _ in range(30):
                    self.loop.run_until_idle()
                    if rid in self.clients['a'].replies:
                        break
                    free = [j for j in self.session_jobs() if j not in self.hold]
                    if not free:
                        break
                    free[0].deliver()
        finally:
            self._poking = False

    # ---- world changes
    def chain_slots(self):
        return {s for b in self.tree.chain(self.best) for s in b.slots}

    def spent(self, slots):
        return {(p, i) for t in slots if t in SLOTS for p, i in SLOTS[t]['ins']}

    def can_mine(self, t, base):
        if t in base:
            return False
        if any(p not in base and p != 100 for p, _i in SLOTS[t]['ins']):
            return False
        return not any((p, i) in self.spent(base) for p, i in SLOTS[t]['ins'])

    def pick(self, touch, base):
        if not touch:
            return []
        for t in X_SLOTS:
            if self.can_mine(t, base):
                return [t]
        return []

    def do_block(self, touch):
        base = self.chain_slots()
        # (every other block takes two transactions when it can: blocks with an odd number of transactions, coinbase included)
        txs = [t for t in sorted(self.pool) if self.can_mine(t, base)][:(2 if self.nb % 2 else 1)] if touch and self.pool \
            else self.pick(touch, base)
        self.nb += 1
        self.tree.add(self.nb, self.best, txs)
        self.prev_best, self.best = self.best, self.nb
        self.pool -= set(txs)
        self.drop_invalid_pool()

    def drop_invalid_pool(self):
        base = self.chain_slots()
        changed = True
        while changed:
            changed = False
            for t in sorted(self.pool):
                ok = all((p in base or p in self.pool or p == 100) for p, _i in SLOTS[t]['ins']) \
                    and not any((p, i) in self.spent(base) for p, i in SLOTS[t]['ins']) and t not in base
                if not ok:
                    self.pool.discard(t)
                    changed = True

    def do_same_height_reorg(self, touch, back=False, drop=()):
        tip = self.tree.blocks[self.best]
        if tip.parent is None:
            return
        regular = tip.slots[1:]
        base = {s for b in self.tree.chain(tip.parent.bid) for s in b.slots}
        if drop:
            txs = [t for t in regular if t not in drop]
        elif touch:
            txs = [] if regular else self.pick(True, base)
        else:
            txs = list(regular)
        self.nb += 1
        self.tree.add(self.nb, tip.parent.bid, txs)
        self.prev_best, self.best = self.best, self.nb
        # transactions of the dropped block that the new one does not contain return to the daemon's mempool (back) or
        # are gone for good
        if back:
            self.pool |= {t for t in regular if t not in txs}
        self.drop_invalid_pool()
        if self.bp.caught_up and self.bp.state.height >= 1:
            self.bp.force_chain_reorg(1)

    def do_fork2(self, back=False):
        '''A natural reorg: the daemon moves to a branch one block longer that forks below the tip.'''
        tip = self.tree.blocks[self.best]
        if tip.parent is None:
            return
        if back:
            self.pool |= set(tip.slots[1:])
        self.nb += 1
        self.tree.add(self.nb, tip.parent.bid, [])
        a = self.nb
        self.nb += 1
        self.tree.add(self.nb, a, [])
        self.prev_best, self.best = self.best, self.nb
        self.drop_invalid_pool()

    def do_mempool(self):
        base = self.chain_slots()
        mine = [t for t in sorted(self.pool) if t in X_SLOTS]
        if mine and len(self.pool) >= 3:
            t = mine[-1]
            gone = {t}
            while True:
                more = {u for u in self.pool - gone if any(p in gone for p, _i in SLOTS[u]['ins'])}
                if not more:
                    break
                gone |= more
            self.pool -= gone
            return
        for t in [1, 2, 4, 5, 3, 8, 11, 7]:
            if t not in base and t not in self.pool and \
                    all((p in base or p in self.pool or p == 100) for p, _i in SLOTS[t]['ins']) and \
                    not any((p, i) in self.spent(base | self.pool) for p, i in SLOTS[t]['ins']):
                self.pool.add(t)
                return

    def run_until_note(self):
        n0 = len(self.notes_sent)
        for _ in range(6):
            self.close_window()
            self.sync_index()
            self.finish_refresh()
            self.full_refresh()
            for _ in range(3):
                self.micro('bp')
            if len(self.notes_sent) > n0:
                return
            self.micro('timer')

    def track_jobs(self):
        for j in self.session_jobs():
            if j not in self.sess_jobs:
                self.sess_jobs.append(j)

    # ---- the two kinds of schedule
    def drive(self):
        self.pending_handover = None
        self.window = None
        self.settle_bp()
        self.start_mempool()
        self.full_refresh()
        self.start_serving()
        for name in ('a', 'b'):
            self.connect(name)
        self.quiesce()
        for name in ('a', 'b'):
            self.request(name, 'blockchain.headers.subscribe', [])
        self.quiesce()
        if self.job['kind'] == 'model':
            self.drive_model(self.job['evs'])
        else:
            self.drive_random(self.job['ops'])
        self.quiesce()
        self.observe_quiescent()

    def drive_model(self, evs):
        ids = {}
        for e in evs:
            try:
                self.model_event(e, ids)
            except NotifyBegun:
                pass
            self.loop.run_until_idle()
            self.track_jobs()
            self.check_tasks()
        g = next((x for x in self.gates if x.name == 'nbegin'), None)
        if g:
            g.release()

    def model_event(self, e, ids):
        if True:
            k = e['e']
            # a flip of the has-unconfirmed-inputs flag of script 1's mempool part is made concrete with transaction 8
            # (pays script 1) and its parent 5, which touches scripts 2 and 3 only
            if k == 'block':
                if e.get('flip') and {5, 8} <= self.pool:
                    self.nb += 1
                    self.tree.add(self.nb, self.best, [5])
                    self.prev_best, self.best = self.best, self.nb
                    self.pool -= {5}
                    self.drop_invalid_pool()
                else:
                    self.do_block(e['touch'])
                self.close_window()
                self.sync_index_only()
            elif k == 'reorg':
                if e.get('flip') and 5 in self.tree.blocks[self.best].slots[1:] and 8 in self.pool:
                    self.do_same_height_reorg(False, back=True, drop=(5,))
                else:
                    self.do_same_height_reorg(e['touch'])
                self.sync_index_only()
            elif k == 'mempool':
                base = self.chain_slots()
                if e.get('unc') and 5 not in base and 8 not in base and not ({5, 8} & self.pool) \
                        and not any((p, i) in self.spent(base | self.pool) for p, i in SLOTS[5]['ins']):
                    self.pool |= {5, 8}
                elif not e.get('unc') and 5 in base and 8 not in base and 8 not in self.pool \
                        and not any((p, i) in self.spent(base | self.pool) for p, i in SLOTS[8]['ins']):
                    self.pool.add(8)
                else:
                    self.do_mempool()
            elif k == 'nbegin':
                # run until _notify_sessions is entered, and stop it at its header refresh
                self.split_notify = True
                try:
                    self.run_until_note()
                finally:
                    self.split_notify = False
            elif k == 'notify':
                g = next((x for x in self.gates if x.name == 'nbegin'), None)
                if g:
                    g.release()
                    self.loop.run_until_idle()
                else:
                    self.run_until_note()
            elif k in ('subscribe', 'query'):
                name = 'a' if e['s'] == 1 else 'b'
                method = 'blockchain.scripthash.subscribe' if k == 'subscribe' else 'blockchain.scripthash.get_history'
                before = set(map(id, self.session_jobs()))
                self.request(name, method, [self.scripthash(1)])
                self.loop.run_until_idle()
                for j in self.session_jobs():
                    if id(j) not in before:
                        self.hold.add(j)
            elif k == 'exec':
                self.track_jobs()
                j = self.job_for(e['id'], ids)
                if j is not None and not j.executed:
                    j.execute()
            elif k == 'deliver':
                self.track_jobs()
                j = self.job_for(e['id'], ids)
                if j is not None:
                    j.deliver()
                    self.loop.run_until_idle()

    def job_for(self, mid, ids):
        '''The real read job standing for the model's read id (assigned in order of first use).'''
        if mid in ids and not ids[mid].delivered:
            return ids[mid]
        used = set(id(j) for j in ids.values())
        for j in self.sess_jobs:
            if id(j) not in used and not j.delivered:
                ids[mid] = j
                return j
        return None

    def sync_index_only(self):
        '''The block processor indexes up to the daemon's tip; notifications may or may not follow.'''
        self.sync_index()

    def drive_random(self, ops):
        for op in ops:
            k = op['op']
            if k == 'block':
                self.do_block(op['touch'])
            elif k == 'reorg':
                self.do_same_height_reorg(op['touch'], back=op.get('back', False))
            elif k == 'fork2':
                self.do_fork2(back=op.get('back', False))
            elif k == 'mempool':
                self.do_mempool()
            elif k == 'subscribe':
                self.request(op['c'], 'blockchain.scripthash.subscribe', [self.scripthash(op['s'])])
            elif k == 'unsubscribe':
                self.request(op['c'], 'blockchain.scripthash.unsubscribe', [self.scripthash(op['s'])])
            elif k == 'query':
                if op['kind'] == 'id_from_pos':
                    self.request(op['c'], 'blockchain.transaction.id_from_pos', [max(self.db.state.height, 0), 1])
                else:
                    self.request(op['c'], 'blockchain.scripthash.' + op['kind'], [self.scripthash(op['s'])])
            elif k == 'observe':
                self.quiesce()
                self.observe_quiescent()
            elif k == 'micro':
                self.micro(op['kind'])
            self.loop.run_until_idle()
            self.check_tasks()


def run_client(job):
    r = ClientRun(job)
    return r.run()
