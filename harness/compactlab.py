'''C14: history compaction (the real tool loop of electrumx_compact_history on the real DB /
History over LevelDB) interleaved with real server runs (BlockProcessor indexing and undoing
blocks), following a plan exported by TLC from Compaction.tla.
'''
from harness.detloop import NoProgress
from harness.crashio import CTL
from harness.indexlab import IndexRun, StopRun
from harness.chainlab import SLOTS, SCRIPTS


class CompactRun(IndexRun):
    def __init__(self, plan, *, maxrow=2, **kw):
        super().__init__([], **kw)
        self.plan = list(plan)
        self.maxrow = maxrow
        self.tool_db = None
        self.mined = set()
        self.overflow = False
        self.overflow_at = None      # number of steps recorded when the run left the claim (everything before is judged)
        # the scripts whose histories grow: two share the first prefix, one sits in the prefix right after it (so that a
        # batch ends exactly before a populated prefix), one in the very last prefix
        self.hashx_prefix = {bytes(SCRIPTS[4]): b'\x00\x00', bytes(SCRIPTS[2]): b'\x00\x00', bytes(SCRIPTS[3]): b'\x00\x01',
                             bytes(SCRIPTS[1]): b'\xff\xff'}

    # ---- helpers
    def next_slots(self):
        '''A regular slot that can be mined on the current best chain (keeps histories growing).'''
        chain_slots = {s for b in self.tree.chain(self.best) for s in b.slots}
        for s in (1, 2, 3, 11, 4, 7):
            if s in chain_slots:
                continue
            if all(p in chain_slots for p, _i in SLOTS[s]['ins']):
                # its inputs must still be unspent
                spent = {(p, i) for t in chain_slots if t in SLOTS for p, i in SLOTS[t]['ins']}
                if not any((p, i) in spent for p, i in SLOTS[s]['ins']):
                    return [s]
        return []

    def settled(self):
        bp = self.bp
        tip = self.tree.blocks[self.best].height
        return (bp.caught_up and bp.reorg_count is None and bp.state.height == tip
                and self.db.state.height == tip and self.db.state.tip == self.tree.blocks[self.best].hash)

    def pump(self, until, release_first=True):
        first = release_first
        for _ in range(20000):
            self.loop.run_until_idle()
            if self.task.done():
                exc = None if self.task.cancelled() else self.task.exception()
                if exc is not None:
                    self.steps.append(self.classify_death(exc))
                    raise StopRun()
                return
            jobs = self.loop.pending_jobs()
            if jobs:
                jobs[0].execute()
                jobs[0].deliver()
                continue
            if self.gates:
                g = self.gates[0]
                if g.name == 'height' and not first and until():
                    return
                first = False
                if g.name == 'height' and self.tree.blocks[self.best].height > self.bp.state.height:
                    self.fresh = True
                g.release()
                continue
            if not self.loop.advance():
                raise NoProgress('pump: deadlock')
        raise NoProgress('pump: did not settle')

    def stop_server(self):
        self.shutdown_event.set()
        self.task.cancel()
        self.pump(lambda: False)
        self.abandon()

    def tool_view(self, label):
        '''Histories as the compacted DB holds them (the tool's DB object is open).'''
        db = self.tool_db
        hist = []
        for s, hx in sorted(self.hashx.items()):
            full = [db.fs_tx_hash(n) for n in db.history.get_txnums(hx, limit=None)]
            hist.append([s, [[self.uni.slot_from_hash(h) if h else 0, ht] for h, ht in full]])
        raw, n = self.loop.run_task(db.read_headers(0, db.state.height + 1))
        hdrs = []
        for k in range(n):
            b = self.tree.by_hex.get(self.coin.header_hash(raw[k * 80:(k + 1) * 80])[::-1].hex())
            hdrs.append(b.bid if b else -9)
        h = db.history
        self.steps.append({'ev': 'toolview', 'label': label, 'h': db.state.height, 'hdrs': hdrs, 'hist': hist,
                           'hfc': h.flush_count, 'cc': h.comp_cursor, 'cfc': h.comp_flush_count,
                           'ufc': db.state.flush_count,
                           'rows': sorted([self.scripts.get(k[:-2], 0), int.from_bytes(k[-2:], 'big'), len(v) // 5]
                                          for k, v in h.db.iterator() if len(k) == 13)})

    def open_tool(self):
        from electrumx.server.db import DB
        from harness.detloop import VirtualLoop
        self.env = self._env()
        self.loop = VirtualLoop()
        db = DB(self.env)
        self.loop.run_task(db.open_for_compacting())
        if db.state.first_sync:
            # the tool refuses to run on a database that has not finished its first sync
            db.utxo_db.close()
            db.history.close_db()
            self.loop.close()
            self.loop = None
            self.steps.append({'ev': 'toolrefused'})
            return False
        history = db.history
        history.max_hist_row_entries = self.maxrow
        # electrumx_compact_history: continue where we left off, if interrupted
        if history.comp_cursor == -1:
            history.comp_cursor = 0
        history.comp_flush_count = max(history.comp_flush_count, 1)
        self.tool_db = db
        return True

    def close_tool(self):
        db = self.tool_db
        db.utxo_db.close()
        db.history.close_db()
        self.tool_db = None
        self.loop.close()
        self.loop = None

    def abandon_tool(self):
        '''The tool's process ends without set_flush_count (killed, or simply not run to the end).'''
        if self.tool_db is None:
            return
        h = self.tool_db.history
        ids = [int.from_bytes(key[-2:], 'big') for key, _v in h.db.iterator() if len(key) == 13]
        if ids and (max(ids) > self.tool_db.state.flush_count or (h.comp_cursor != -1 and max(ids) > h.flush_count)):
            # abandoned (or ended before set_flush_count) with more compacted rows for some script than there have been
            # flushes: only a toy database with rows of one or two entries gets there; the next start takes the high row ids
            # for an unclean shutdown.  Outside the claim (Compaction.tla: overflow)
            self.overflow = True
            if self.overflow_at is None:
                self.overflow_at = len(self.steps)
        self.close_tool()

    # ---- the plan
    MAP = {1: 4, 2: 2, 3: 3}     # model script -> real script paid by the coinbase of the block

    def mine_for(self, op):
        cb = [(self.MAP.get(s, 4), 50) for s in sorted(op.get('scripts') or [1])]
        # a regular transaction rides along when one can be mined: a script then has several entries from one block, which
        # compaction with small rows spreads over several rows (a later reorganisation has to walk back over them)
        self.apply_env({'e': 'mine', 'txs': self.next_slots(), 'cb': cb})

    def flushed_to(self, h):
        return lambda: self.db.state.height >= h and self.bp.state.height >= h

    def drive(self):
        self.flags = ['full'] * 1000          # every block is its own flush: many rows per script
        running = True
        premined = 0
        self.pump(self.settled)               # index the genesis block, catch up
        self.record('view', force=True)
        plan = self.plan
        for k, op in enumerate(plan):
            kind = op['e']
            if kind == 'flush':
                if not running:
                    continue
                if premined > 0:
                    # the block is already on the daemon: the server is still syncing towards it
                    premined -= 1
                    self.pump(self.flushed_to(self.db.state.height + 1))
                else:
                    self.mine_for(op)
                    self.pump(self.settled)
                self.record('view', force=True)
            elif kind == 'backup':
                if not running or self.bp.state.height < 1 or not self.bp.caught_up:
                    continue
                self.bp.force_chain_reorg(1)
                self.pump(self.settled)
                self.record('caughtup', force=True)
            elif kind == 'stop':
                if running:
                    self.stop_server()
                    running = False
                    premined = 0
            elif kind == 'start':
                self.abandon_tool()
                if not running:
                    # blocks the plan flushes before the server is caught up ('serve') are mined first, so that they
                    # are indexed (and flushed) while the server is still syncing, before it re-opens for serving
                    j = k + 1
                    while j < len(plan) and plan[j]['e'] == 'flush':
                        self.mine_for(plan[j])
                        premined += 1
                        j += 1
                    self.boot()
                    self.last_sig = None
                    if premined > 0:
                        self.pump(lambda: True, release_first=False)       # to the first poll
                        self.record('reopen', force=True)
                    running = True
            elif kind == 'serve':
                if running:
                    self.pump(self.settled)      # first catch-up: open_for_serving
                    self.record('reopen', force=True)
            elif kind == 'tool':
                if running or self.tool_db is not None:
                    continue
                if self.open_tool():
                    self.tool_view('open')
            elif kind == 'batch':
                if self.tool_db is None or self.tool_db.history.comp_cursor == -1:
                    continue
                limit = 8_000_000 if op.get('all') else 1
                self.tool_db.history._compact_history(limit)
                self.tool_view('batch')
            elif kind == 'setfc':
                if self.tool_db is None:
                    continue
                while self.tool_db.history.comp_cursor != -1:
                    self.tool_db.history._compact_history(8_000_000)
                self.tool_db.set_flush_count(self.tool_db.history.flush_count)
                self.tool_view('setfc')
                self.close_tool()
            elif kind == 'kill':
                self.abandon_tool()
        self.abandon_tool()
        if not running:
            self.boot()
            self.last_sig = None
        self.pump(self.settled)
        self.record('reopen', force=True)
        # more blocks (touching every script) and a reorg on top of whatever compaction left
        for _ in range(2):
            self.mine_for({'scripts': [1, 2, 3]})
            self.pump(self.settled)
            self.record('caughtup', force=True)
        if self.bp.state.height >= 1:
            self.bp.force_chain_reorg(1)
            self.pump(self.settled)
            self.record('final', force=True)


def run_compaction(plan, **kw):
    r = CompactRun(plan, **kw)
    t = r.run()
    t['overflow'] = r.overflow
    t['overflow_at'] = r.overflow_at
    return t
