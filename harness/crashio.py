'''Durable-operation interposition: count / crash at every durable operation.

* VerifLevelDB subclasses the repository's LevelDB engine (found by name through
  storage.db_class, DB_ENGINE=verifleveldb) and reports every batch commit and direct put;
* LogicalFile.write (headers / tx counts / tx hashes files) is wrapped so that a crash can
  also leave a torn prefix of the data being written.
The crash itself is a BaseException raised out of the operation: everything in memory is
then discarded by the driver and the databases are reopened through the real DB code.
'''
import threading

import electrumx.lib.util as util
import electrumx.server.storage as storage


class CrashNow(BaseException):
    '''The process dies here.'''


class Controller:
    def __init__(self):
        self.reset()

    def reset(self, crash_at=None, torn=None):
        self.count = 0
        self.crash_at = crash_at      # ordinal (1-based) of the durable operation to die at
        self.torn = torn              # for file writes: fraction (0..1) of the data that reaches the disk
        self.log = []                 # (ordinal, kind, detail)
        self.enabled = True
        self.fired = None
        self.commit_cb = None         # called with the DB name after every committed batch
        self.park = None              # {'thread', 'at', 'count', 'parked', 'resume'}: park a job thread before its at-th op

    def op(self, kind, detail):
        '''Called BEFORE a durable operation takes effect.  Returns normally or raises.'''
        if not self.enabled:
            return False
        p = self.park
        if p is not None and threading.get_ident() == p['thread']:
            p['count'] += 1
            if p['count'] == p.get('at') or (p.get('match') == (kind, detail) and not p.get('hit')):
                p['hit'] = True
                p['parked'].set()
                p['resume'].wait()
        self.count += 1
        self.log.append((self.count, kind, detail))
        if self.crash_at is not None and self.count == self.crash_at:
            self.fired = (self.count, kind, detail)
            return True
        return False


CTL = Controller()


class _Batch:
    def __init__(self, real_cm, name):
        self.cm = real_cm
        self.name = name

    def __enter__(self):
        self.batch = self.cm.__enter__()
        return self.batch

    def __exit__(self, exc_type, exc, tb):
        if exc_type is None and CTL.op('batch', self.name):
            # die before the commit: the batch is dropped
            try:
                self.cm.__exit__(CrashNow, CrashNow(), None)
            except BaseException:
                pass
            raise CrashNow()
        r = self.cm.__exit__(exc_type, exc, tb)
        if exc_type is None and CTL.commit_cb is not None and CTL.enabled:
            CTL.commit_cb(self.name)
        return r


class VerifLevelDB(storage.LevelDB):
    '''The repository's LevelDB engine with every durable operation reported.'''

    def open(self, name, create):
        super().open(name, create)
        real_put = self.put
        real_wb = self.write_batch
        short = name

        def put(key, value):
            if CTL.op('put', short):
                raise CrashNow()
            return real_put(key, value)

        def write_batch():
            return _Batch(real_wb(), short)

        self.put = put
        self.write_batch = write_batch


storage.VerifLevelDB = VerifLevelDB
_real_lf_write = util.LogicalFile.write


def _lf_write(self, start, b):
    if not b:
        return _real_lf_write(self, start, b)
    if CTL.op('file', self.filename_fmt.split('{')[0]):
        if CTL.torn:
            n = int(len(b) * CTL.torn)
            if 0 < n < len(b):
                _real_lf_write(self, start, bytes(b)[:n])
        raise CrashNow()
    return _real_lf_write(self, start, b)


def install():
    util.LogicalFile.write = _lf_write


def uninstall():
    util.LogicalFile.write = _real_lf_write
