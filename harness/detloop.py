'''Deterministic event loop for driving the real asyncio code.

* virtual time: time() only moves when the driver advances it to the next timer;
* run_in_executor never uses threads: a job is *executed* (its function runs atomically at
  that instant) and *delivered* (its future resolves) as two separately schedulable steps,
  or inline when no scheduler is installed;
* the driver alternates  run_until_idle()  with one choice among the enabled things
  (deliver a job, release a gate, advance time), which makes a schedule a plain sequence.
'''
import asyncio
import heapq
import sys
import threading
from asyncio import events


class NoProgress(RuntimeError):
    '''The code under test cannot be driven any further although the driver withholds nothing: every job is delivered,
    every gate released, every timer fired, and still the system does not come to rest (or nothing is runnable).  Labs
    record it as a step of the trace (the server is stuck), so that it is judged like a task that died.'''


class Job:
    def __init__(self, loop, func, args):
        self.loop = loop
        self.func = func
        self.args = args
        self.future = loop.create_future()
        self.executed = False
        self.delivered = False
        self.result = None
        self.exc = None
        self.name = getattr(func, '__qualname__', getattr(func, '__name__', repr(func)))

    def execute(self):
        '''Run the function now (atomically, as the worker thread would at this instant).'''
        if self.executed:
            return
        self.executed = True
        try:
            self.result = self.func(*self.args)
        except BaseException as e:      # delivered to the awaiting coroutine
            self.exc = e
            if not isinstance(e, Exception):
                # a simulated process death: propagate to the driver at once
                self.delivered = True
                raise

    def deliver(self):
        '''Resolve the future (the awaiting coroutine becomes runnable).'''
        if not self.executed:
            self.execute()
        if self.delivered:
            return
        self.delivered = True
        if self.future.cancelled():
            return
        if self.exc is not None:
            self.future.set_exception(self.exc)
        else:
            self.future.set_result(self.result)


class VirtualLoop(asyncio.SelectorEventLoop):

    def __init__(self):
        super().__init__()
        self._vtime = 0.0
        self.jobs = []              # pending Job objects (not yet delivered)
        self.job_mode = 'inline'    # 'inline' | 'manual'
        self.job_log = []

    # --- time
    def time(self):
        return self._vtime

    def next_timer(self):
        '''Virtual time of the earliest live timer, or None.'''
        while self._scheduled and self._scheduled[0]._cancelled:
            h = heapq.heappop(self._scheduled)
            h._scheduled = False
            self._timer_cancelled_count = max(0, self._timer_cancelled_count - 1)
        return self._scheduled[0]._when if self._scheduled else None

    def advance(self):
        '''Jump to the next timer.  Returns False when there is none.'''
        when = self.next_timer()
        if when is None:
            return False
        if when > self._vtime:
            self._vtime = when
        self.run_until_idle()
        return True

    # --- executor
    def run_in_executor(self, executor, func, *args):
        job = Job(self, func, args)
        self.job_log.append(job.name)
        if self.job_mode == 'inline':
            job.execute()
            self.call_soon(job.deliver)
        else:
            self.jobs.append(job)
        return job.future

    def pending_jobs(self):
        self.jobs = [j for j in self.jobs if not j.delivered]
        return self.jobs

    # --- running
    def _enter(self):
        self._check_closed()
        self._old_hooks = sys.get_asyncgen_hooks()
        self._thread_id = threading.get_ident()
        sys.set_asyncgen_hooks(firstiter=self._asyncgen_firstiter_hook,
                               finalizer=self._asyncgen_finalizer_hook)
        events._set_running_loop(self)

    def _leave(self):
        self._thread_id = None
        events._set_running_loop(None)
        sys.set_asyncgen_hooks(*self._old_hooks)

    def run_until_idle(self, limit=1000000):
        '''Run ready callbacks (and timers already due) until nothing is runnable.'''
        self._enter()
        try:
            n = 0
            while True:
                when = self.next_timer()
                if not self._ready and not (when is not None and when <= self._vtime):
                    break
                self._run_once()
                n += 1
                if n > limit:
                    raise NoProgress('run_until_idle: livelock')
        finally:
            self._leave()

    def run_task(self, coro, *, max_advances=100000, until=None):
        '''Run coro to completion, advancing virtual time whenever idle (jobs inline or
        delivered in FIFO order when manual).  Returns the task's result.'''
        task = self.create_task(coro)
        n = 0
        while not task.done():
            self.run_until_idle()
            if task.done() or (until and until()):
                break
            jobs = self.pending_jobs()
            if jobs:
                jobs[0].deliver()
                continue
            if not self.advance():
                raise NoProgress('run_task: deadlock (nothing runnable, no timers)')
            n += 1
            if n > max_advances:
                raise NoProgress('run_task: too many timer advances')
        return task.result() if task.done() else None

    def shutdown(self):
        '''Cancel everything that is left and close.'''
        try:
            self._enter()
            try:
                tasks = [t for t in asyncio.all_tasks(self) if not t.done()]
            finally:
                self._leave()
            for t in tasks:
                t.cancel()
            for _ in range(50):
                self.run_until_idle()
                for j in self.pending_jobs():
                    try:
                        j.deliver()
                    except BaseException:
                        pass
                if not [t for t in tasks if not t.done()]:
                    break
            for t in tasks:
                if t.done() and not t.cancelled():
                    t.exception()
        except Exception:
            pass
        finally:
            try:
                self.close()
            except Exception:
                pass


class Gate:
    '''A point where a coroutine of the harness waits until the driver lets it continue.'''

    def __init__(self, loop, name, registry):
        self.name = name
        self.future = loop.create_future()
        self.registry = registry
        registry.append(self)

    def release(self, value=None):
        if self in self.registry:
            self.registry.remove(self)
        if not self.future.done():
            self.future.set_result(value)

    def fail(self, exc):
        if self in self.registry:
            self.registry.remove(self)
        if not self.future.done():
            self.future.set_exception(exc)
