'''Evidence files, verdict printing, known findings.'''
import json
import os
import sys
import time

HOME = os.environ.get('VERIF_HOME', os.path.dirname(os.path.dirname(os.path.abspath(__file__))))
# (the seeded-change runner redirects both so that runs on mutated sources never overwrite committed evidence)
EVIDENCE_DIR = os.environ.get('VERIF_EVIDENCE_DIR') or os.path.join(HOME, 'evidence')
REPLAY_DIR = os.environ.get('VERIF_REPLAY_DIR') or os.path.join(HOME, 'replays')
KNOWN = os.path.join(HOME, 'known_findings.json')


def known_findings(pid):
    '''Open (not repaired) findings recorded for a property.  Read-only at run time.'''
    try:
        with open(KNOWN) as f:
            doc = json.load(f)
    except FileNotFoundError:
        return []
    return [k for k in doc.get('findings', []) if k.get('property') == pid]


class Outcome:
    '''Collects what one check run did; turned into the evidence file and exit status.'''

    def __init__(self, pid, tier, seed, level):
        self.pid = pid
        self.tier = tier
        self.seed = seed
        self.level = level
        self.start = time.time()
        self.coverage = {}
        self.assumptions = []
        self.violations = []      # (description, replay_path)
        self.known = []           # descriptions of known findings observed
        self.drift = []           # MODEL-DRIFT notes
        self.notes = []

    def add(self, **kw):
        '''Accumulate numeric coverage counters / set other keys.'''
        for k, v in kw.items():
            if isinstance(v, (int, float)) and not isinstance(v, bool) and isinstance(self.coverage.get(k), (int, float)):
                self.coverage[k] += v
            else:
                self.coverage[k] = v

    def sample(self, s, limit=4):
        lst = self.coverage.setdefault('samples', [])
        if len(lst) < limit:
            lst.append(s)

    def violation(self, what, replay_doc):
        os.makedirs(REPLAY_DIR, exist_ok=True)
        n = len(self.violations)
        path = os.path.join(REPLAY_DIR, f'{self.pid}-{n}.json')
        with open(path, 'w') as f:
            json.dump({'property': self.pid, 'what': what, 'replay': replay_doc}, f, indent=1, default=str)
        self.violations.append((what, path))

    def known_finding(self, what):
        if what not in self.known:
            self.known.append(what)

    def finish(self):
        wall = time.time() - self.start
        cov = dict(self.coverage)
        if self.drift:
            cov['model_drift'] = self.drift[:20]
        if self.notes:
            cov['notes'] = self.notes[:40]
        if self.known:
            cov['known_findings_observed'] = self.known
        doc = {
            'property_id': self.pid,
            'tier': self.tier,
            'seed': self.seed,
            'level': self.level,
            'coverage': cov,
            'assumptions': self.assumptions,
            'wall_s': round(wall, 2),
            'violations': len(self.violations),
        }
        os.makedirs(EVIDENCE_DIR, exist_ok=True)
        with open(os.path.join(EVIDENCE_DIR, f'{self.pid}.json'), 'w') as f:
            json.dump(doc, f, indent=1, default=str)
        for d in self.drift[:20]:
            print(f'MODEL-DRIFT: property={self.pid} {d}')
        for k in self.known:
            print(f'KNOWN-FINDING: property={self.pid} {k}')
        for what, path in self.violations:
            print(f'VIOLATION property={self.pid} replay={path}')
            print(f'  {what}')
        summary = {k: v for k, v in cov.items() if isinstance(v, (int, float, bool))}
        print(f'{self.pid} {self.tier}: {"FAIL" if self.violations else "ok"} in {wall:.1f}s {summary}')
        sys.stdout.flush()
        return 1 if self.violations else 0
