'''Runs the real BlockProcessor + DB (+ History, LevelDB) against a fake daemon under the
deterministic loop, driven by a scenario (daemon events, flush requests, forced reorgs,
crash / cancellation points), and records property-level observations taken through the
public read API of DB.
'''
import asyncio
import os
import shutil
import tempfile

from harness import crashio
from harness.chainlab import Universe, Tree, SCRIPTS, SLOTS, FUNDING, CB
from harness.crashio import CTL, CrashNow
from harness.detloop import VirtualLoop, Gate, NoProgress

UNI = None


def universe():
    global UNI
    if UNI is None:
        UNI = Universe()
    return UNI


class FakeDaemon:
    '''The part of Daemon the block processor (and later the mempool) uses.'''

    def __init__(self, run):
        self.run = run
        self._h = None

    def logged_url(self):
        return 'fake'

    def cached_height(self):
        return self._h

    async def height(self):
        await self.run.gate('height')
        self._h = self.run.tree.blocks[self.run.best].height
        return self._h

    async def block_hex_hashes(self, first, count):
        from electrumx.server.daemon import DaemonError
        bp = self.run.bp
        if bp is not None and bp.state is not None and first <= bp.state.height:
            await self.run.gate('lookback')
        chain = self.run.tree.chain(self.run.best)
        if count > 0 and first + count - 1 > len(chain) - 1:
            raise DaemonError([{'code': -8, 'message': 'Block height out of range'}])
        return [b.hex_hash for b in chain[first:first + count]]

    async def get_block(self, hex_hash, filename):
        b = self.run.tree.by_hex[hex_hash]
        with open(filename, 'wb') as f:
            f.write(b.raw)
        return len(b.raw)


class Notes:
    '''Stand-in for Notifications: records what the block processor reports.'''

    def __init__(self, run):
        self.run = run

    async def on_block(self, touched, height):
        self.run.on_block_calls.append((height, set(touched)))


class StopRun(Exception):
    pass


class IndexRun:
    def __init__(self, events, *, activation=2, reorg_limit=2, prefetch=2, crash_at=None, torn=None,
                 cont=None, max_polls=200, tree_spec=None):
        self.events = list(events)
        self.env_events = [e for e in self.events if e['e'] in ('mine', 'fork', 'switch', 'force', 'poll', 'lookback')]
        self.flags = [e['flush'] for e in self.events if e['e'] == 'advance']
        self.poll_idx = 0           # 'poll' events of the scenario consumed so far
        self.scal = []              # scalars of the process state observed when advance_block / on_caught_up / backup_block return
        self.activation = activation
        self.reorg_limit = reorg_limit
        self.prefetch = prefetch
        self.crash_at = crash_at
        self.torn = torn
        self.cont = cont
        self.max_polls = max_polls
        self.uni = universe()
        self.tree = Tree(self.uni)
        self.best = 0
        self.prev_best = 0
        self.nb = 0
        self.dir = tempfile.mkdtemp(prefix='idx-', dir='/dev/shm')
        self.steps = []
        self.on_block_calls = []
        self.fresh = False
        self.shrunk = False
        self.commits = [-1]
        self.restarts = 0
        self.bp = self.db = self.loop = None
        self.gates = []
        self.polls = 0
        self.after_exhaust_polls = 0
        self.last_sig = None
        self.died = []
        self.scripts = None
        self.outpoints = None
        self.behind_at_reorg = False

    # ---------------------------------------------------------------- environment
    def _env(self):
        os.environ.update(DB_DIRECTORY=self.dir, DAEMON_URL='http://u:p@localhost:1/', COIN='BitcoinSV',
                          NET='regtest', REORG_LIMIT=str(self.reorg_limit), CACHE_MB='10', PEER_DISCOVERY='off',
                          SERVICES='', DB_ENGINE='verifleveldb', COST_SOFT_LIMIT='0', COST_HARD_LIMIT='0')
        from electrumx.server.env import Env
        env = Env()
        lab = self

        class Coin(env.coin):
            GENESIS_ACTIVATION = lab.activation

            @classmethod
            def prefetch_limit(cls, height):
                return lab.prefetch

            @classmethod
            def hashX_from_script(cls, script):
                # (a lab may place chosen scripts in chosen 2-byte hashX prefixes: in a real database every prefix
                # is populated, which a universe of a handful of scripts cannot show otherwise)
                hx = super().hashX_from_script(script)
                pre = getattr(lab, 'hashx_prefix', {}).get(bytes(script))
                return pre + hx[2:] if pre else hx
        env.coin = Coin
        return env

    def make_notes(self):
        return Notes(self)

    def boot(self):
        from electrumx.server.db import DB
        from electrumx.server.block_processor import BlockProcessor, OnDiskBlock
        crashio.install()
        OnDiskBlock.blocks.clear()
        OnDiskBlock.tasks.clear()
        OnDiskBlock.log_block = False
        self.env = self._env()
        self.coin = self.env.coin
        self.scripts = {self.coin.hashX_from_script(b): s for s, b in SCRIPTS.items()}
        self.hashx = {s: hx for hx, s in self.scripts.items()}
        self.loop = VirtualLoop()
        self.loop.job_mode = 'manual'
        self.gates = []
        self.db = DB(self.env)
        self.daemon = FakeDaemon(self)
        # Controller.serve queries the daemon once before anything starts, so a height is always cached
        self.daemon._h = self.tree.blocks[self.best].height
        self.notes = self.make_notes()
        self.bp = BlockProcessor(self.env, self.db, self.daemon, self.notes)
        self.bp.polling_delay = 5
        bp = self.bp
        real_advance = bp.advance_block
        real_caught_up = bp.on_caught_up

        def scalars(after_backup=False):
            db, st = self.db, bp.state
            return {'memh': st.height, 'txc': st.tx_count, 'uc': st.utxo_count, 'nc': len(bp.utxo_cache),
                    'nd': len(bp.db_deletes) // 2, 'nu': sum(len(v) for v in db.history.unflushed.values()) // 5,
                    'npu': len(bp.undo_infos), 'hfc': db.history.flush_count,
                    'dbh': db.state.height if db.state is not None else -1, 'fsh': db.fs_height}
        self.scalars = scalars

        def advance_block(block):
            real_advance(block)
            if bp.reorg_count is None:
                self.scal.append({'k': 'advance', 'p': self.poll_idx, 'got': scalars()})
                kind = self.flags.pop(0) if self.flags else 'none'
                if kind == 'hist':
                    bp.force_flush_arg = False
                elif kind == 'full':
                    bp.force_flush_arg = True
        advance_block.__qualname__ = 'BlockProcessor.advance_block'

        real_backup = bp.backup_block

        def backup_block(block):
            real_backup(block)
            self.scal.append({'k': 'backup', 'p': self.poll_idx, 'got': scalars()})
        backup_block.__qualname__ = 'BlockProcessor.backup_block'
        bp.backup_block = backup_block

        async def on_caught_up():
            await real_caught_up()
            await self.gate('caughtup')
        real_calc = bp._calc_reorg_range
        self.rg = None

        async def calc_reorg_range(count):
            self.rg = {'h': bp.state.height, 'cached': self.daemon._h, 'forced': count >= 0, 'start': None, 'count': count}
            start, n = await real_calc(count)
            self.rg.update(start=start, count=n)
            return start, n
        bp._calc_reorg_range = calc_reorg_range
        bp.advance_block = advance_block
        bp.on_caught_up = on_caught_up
        self.caught_up_event = asyncio.Event()
        self.shutdown_event = asyncio.Event()
        self.task = self.loop.create_task(bp.fetch_and_process_blocks(self.caught_up_event, self.shutdown_event))

    async def gate(self, name):
        g = Gate(self.loop, name, self.gates)
        await g.future

    def abandon(self):
        '''The process is gone: drop every object, close the database handles.'''
        try:
            if self.db is not None:
                if self.db.utxo_db is not None:
                    self.db.utxo_db.close()
                self.db.history.close_db()
        except Exception:
            pass
        if self.loop is not None:
            try:
                for t in asyncio.all_tasks(self.loop):
                    t._log_destroy_pending = False
                self.loop.close()
            except Exception:
                pass
        self.bp = self.db = self.loop = None

    def cleanup(self):
        # a flush job a lab has parked in a real thread must not outlive the run (the run may have ended abnormally)
        for attr in ('window', 'parked'):
            w = getattr(self, attr, None)
            if w:
                try:
                    w['ctl']['resume'].set()
                    w['thread'].join(timeout=10)
                except Exception:      # pylint:disable=broad-except
                    pass
                setattr(self, attr, None)
        CTL.park = None
        self.abandon()
        crashio.uninstall()
        shutil.rmtree(self.dir, ignore_errors=True)

    # ---------------------------------------------------------------- daemon events
    def apply_env(self, e):
        kind = e['e']
        if kind in ('mine', 'fork'):
            self.nb += 1
            parent = e['parent'] if kind == 'fork' else self.best
            if kind == 'mine' and 'parent' in e and e['parent'] != self.best:
                parent = e['parent']
            self.tree.add(self.nb, parent, e['txs'], e.get('cb'))
            old_h = self.tree.blocks[self.best].height
            self.prev_best = self.best
            self.best = self.nb
            if self.tree.blocks[self.best].height < old_h:
                self.shrunk = True
            self.fresh = False
        elif kind == 'switch':
            old_h = self.tree.blocks[self.best].height
            self.prev_best = self.best
            self.best = e['to']
            if self.tree.blocks[self.best].height < old_h:
                self.shrunk = True
            self.fresh = False
        elif kind == 'force':
            if self.bp is not None and self.bp.force_chain_reorg(e['n']):
                self.steps.append({'ev': 'force', 'n': e['n']})

    def consume_until(self, stop_kinds):
        '''Apply scripted environment events up to and including the next one in stop_kinds.'''
        while self.env_events:
            e = self.env_events.pop(0)
            if e['e'] in stop_kinds:
                return True
            self.apply_env(e)
        return False

    # ---------------------------------------------------------------- observation
    def all_outpoints(self):
        pts = [(CB, i) for i in range(len(FUNDING))]
        for s, d in SLOTS.items():
            pts += [(s, i) for i in range(len(d['outs']))]
        for bid, b in self.tree.blocks.items():
            if bid:
                pts += [(CB + bid, i) for i in range(len(b.cb))]
        return pts

    async def observe(self, ev, extra=None):
        db = self.db
        uni = self.uni
        st = db.state
        view = {'ev': ev, 'h': st.height, 'txc': st.tx_count, 'uc': st.utxo_count, 'cs': st.chain_size,
                'tip': -1, 'fc': st.flush_count}
        if st.height >= 0:
            b = self.tree.by_hex.get(bytes(st.tip)[::-1].hex())
            view['tip'] = b.bid if b else -9
        # headers -> block ids
        hdrs = []
        if st.height >= 0:
            raw, n = await db.read_headers(0, st.height + 1)
            for k in range(n):
                hx = self.coin.header_hash(raw[k * 80:(k + 1) * 80])[::-1].hex()
                b = self.tree.by_hex.get(hx)
                hdrs.append(b.bid if b else -9)
            try:
                fs = await db.fs_block_hashes(0, st.height + 1)
                if [h[::-1].hex() for h in fs] != [self.tree.blocks[b].hex_hash if b >= 0 else '' for b in hdrs]:
                    hdrs.append(-8)
            except Exception:
                hdrs.append(-7)
        view['hdrs'] = hdrs
        # header merkle proofs (served with cp_height): the cache is populated once, as the controller does after the
        # first catch-up, and from then on lives through every reorg; expected roots are computed here from the headers
        # read above (which ChainIsPath ties to the chain)
        hp = 1
        if st.height >= 0 and -9 not in hdrs and -8 not in hdrs and -7 not in hdrs:
            from harness.props.proofs import fold, root_of
            hashes = [self.tree.blocks[b].hash for b in hdrs]
            try:
                if not db.header_mc.initialized.is_set():
                    await db.populate_header_merkle_cache()
                for cp in sorted({st.height, max(st.height - 1, 0)}):
                    for idx in sorted({0, cp}):
                        branch, root = await asyncio.wait_for(db.header_branch_and_root(cp + 1, idx), 5)
                        got, _ = fold(hashes[idx], [x[::-1].hex() for x in branch], idx)
                        if root != root_of(hashes[:cp + 1]) or got != root:
                            hp = 0
            except Exception:      # pylint:disable=broad-except
                hp = -1
        view['hproof'] = hp
        view['csx'] = sum(len(self.tree.blocks[b].raw) for b in hdrs if b in self.tree.blocks)
        # per-height tx hashes and tx number map
        byh = []
        for h in range(st.height + 1):
            try:
                byh.append([uni.slot_from_hash(x) for x in db.fs_tx_hashes_at_blockheight(h)])
            except Exception as e:
                byh.append([-1])
        view['byh'] = byh
        nums = []
        for n in range(st.tx_count):
            hsh, height = db.fs_tx_hash(n)
            nums.append([uni.slot_from_hash(hsh) if hsh else 0, height])
        view['nums'] = nums
        # UTXOs through all_utxos and lookup_utxos
        utxos = []

        async def bounded(coro):
            # all_utxos / limited_history retry for ever when a row names a tx number the files do not have; a read
            # that does not resolve within 5 (virtual) seconds is recorded as such, and no oracle row matches it
            try:
                return await asyncio.wait_for(coro, 5)
            except asyncio.TimeoutError:
                return None
        for s, hx in sorted(self.hashx.items()):
            got = await bounded(db.all_utxos(hx))
            if got is None:
                utxos.append([-1, -1, s, -1, -1])
                continue
            for u in got:
                utxos.append([uni.slot_from_hash(u.tx_hash), u.tx_pos, s, u.value, u.height])
        view['utxos'] = sorted(utxos)
        pts = self.all_outpoints()
        found = await db.lookup_utxos([(uni.hash[t], i) for t, i in pts if t in uni.hash])
        look = []
        for (t, i), r in zip([p for p in pts if p[0] in uni.hash], found):
            if r is not None:
                look.append([t, i, self.scripts.get(r[0], 0), r[1]])
        view['look'] = sorted(look)
        # histories: only resolvable when no history-only flush is ahead of the UTXO flush
        ahead = any(True for s, hx in self.hashx.items()
                    for n in db.history.get_txnums(hx, limit=None) if n >= st.tx_count)
        view['ahead'] = ahead
        hist = []
        lims = []
        for s, hx in sorted(self.hashx.items()):
            if ahead:
                full = [db.fs_tx_hash(n) for n in db.history.get_txnums(hx, limit=None) if n < st.tx_count]
            else:
                full = await bounded(db.limited_history(hx, limit=None))
                if full is None:
                    hist.append([s, [[-1, -1]]])
                    continue
            hist.append([s, [[uni.slot_from_hash(h), ht] for h, ht in full]])
            if not ahead:
                for lim in sorted({0, 1, 2, max(len(full) - 1, 0), len(full), len(full) + 1}):
                    part = await bounded(db.limited_history(hx, limit=lim))
                    if part is None:
                        part = [(b'', -1)]
                    lims.append([s, lim, [[uni.slot_from_hash(h), ht] for h, ht in part]])
        view['hist'] = hist
        view['lims'] = lims
        # undo rows present (C15)
        view['undo'] = sorted(int.from_bytes(k[1:], 'big') for k, _v in db.utxo_db.iterator(prefix=b'U'))
        # raw scan of both LevelDBs reduced to semantic rows: nothing may be left that the read API does not show
        slot_of_num = [x[0] for x in nums]
        rawu, rawh = [], []
        for k, v in db.utxo_db.iterator(prefix=b'u'):
            n = int.from_bytes(k[16:21], 'little')
            rawu.append([slot_of_num[n] if n < len(slot_of_num) else 0, int.from_bytes(k[12:16], 'little'),
                         self.scripts.get(k[1:12], 0), int.from_bytes(v, 'little')])
        for k, v in db.utxo_db.iterator(prefix=b'h'):
            n = int.from_bytes(k[9:14], 'little')
            t = slot_of_num[n] if n < len(slot_of_num) else 0
            pfx_ok = int(t in uni.hash and uni.hash[t][:4] == k[1:5])
            rawh.append([t, int.from_bytes(k[5:9], 'little'), self.scripts.get(bytes(v), 0), pfx_ok])
        view['rawu'] = sorted(rawu)
        view['rawh'] = sorted(rawh)
        rows = []
        for k, v in db.history.db.iterator():
            if len(k) == 13:
                rows.append([self.scripts.get(k[:11], 0), int.from_bytes(k[11:], 'big'),
                             [int.from_bytes(v[j:j + 5], 'little') for j in range(0, len(v), 5)]])
        view['rawhist'] = sorted(rows)
        view['undolen'] = sorted([int.from_bytes(k[1:], 'big'), len(v) // 24, len(v) % 24]
                                 for k, v in db.utxo_db.iterator(prefix=b'U'))
        view['best'] = [b.bid for b in self.tree.chain(self.best)]
        view['fresh'] = bool(self.fresh)
        view['shrunk'] = bool(self.shrunk)
        view['commits'] = sorted(set(self.commits))
        if extra:
            view.update(extra)
        return view

    def on_commit(self, name):
        # a UTXO batch (which carries the state record) has been committed
        if name == 'utxo' and self.db is not None and self.db.state is not None:
            self.commits.append(self.db.state.height)

    def classify_death(self, exc):
        text = repr(exc)
        rg = self.rg or {}
        why = 'other'
        if 'no undo information' in text:
            why = 'noundo'
        elif 'DaemonError' in text:
            why = 'daemon'
        elif isinstance(exc, AssertionError) and rg.get('start') is not None and rg['start'] <= 0:
            why = 'genesis'
        elif 'not on disk' in text and rg.get('forced') and (rg.get('start') is None or rg['start'] < 0):
            why = 'range'
        return {'ev': 'died', 'why': why, 'exc': text[:200], 'need': rg.get('count') or 0, 'shrunk': bool(self.shrunk),
                'behind': bool(rg.get('cached') is not None and rg.get('h') is not None and rg['cached'] > rg['h'])}

    def sig(self):
        st = self.db.state
        return (st.height, bytes(st.tip), st.tx_count, st.flush_count, self.db.history.flush_count)

    def run_coro(self, coro):
        '''Run a harness coroutine to completion while the block processor is parked.'''
        t = self.loop.create_task(coro)
        for _ in range(100000):
            self.loop.run_until_idle()
            if t.done():
                return t.result()
            jobs = [j for j in self.loop.pending_jobs() if not j.executed]
            if jobs:
                saved = CTL.enabled
                jobs[-1].deliver()
                CTL.enabled = saved
                continue
            if not self.loop.advance():
                raise NoProgress('observer stuck')
        raise NoProgress('observer did not finish')

    def record(self, ev, extra=None, force=False):
        sig = self.sig()
        if not force and sig == self.last_sig:
            return
        self.last_sig = sig
        saved = CTL.enabled
        CTL.enabled = False
        try:
            self.steps.append(self.run_coro(self.observe(ev, extra)))
        except (NoProgress, CrashNow):
            raise
        except Exception as e:      # pylint:disable=broad-except
            # the public read API (or a raw scan) raised on what is in the database: recorded as a death of the server -
            # nothing can be served from this index
            self.steps.append({'ev': 'died', 'why': 'other', 'exc': f'the index cannot be read ({ev}): {e!r}'[:200], 'need': 0,
                               'shrunk': False, 'behind': False})
            raise StopRun()
        finally:
            CTL.enabled = saved

    # ---------------------------------------------------------------- driver
    def run(self):
        '''Returns the trace document.'''
        try:
            CTL.reset(self.crash_at, self.torn)
            CTL.commit_cb = self.on_commit
            self.boot()
            try:
                self.drive()
            except StopRun:
                pass
            except NoProgress as e:
                self.steps.append(self.no_progress_step(e))
        finally:
            ops = list(CTL.log)
            fired = CTL.fired
            self.cleanup()
        return {'tree': [[b.parent.bid if b.parent else -1, b.height, b.slots, b.cb] for _bid, b in sorted(self.tree.blocks.items())],
                'activation': self.activation, 'limit': self.reorg_limit, 'steps': self.steps,
                'ops': len(ops), 'oplog': [(k, d) for _n, k, d in ops], 'fired': fired, 'died': self.died,
                'flush_job_ops': list(getattr(self, 'flush_job_ops', [])), 'scal': list(getattr(self, 'scal', []))}

    def no_progress_step(self, e):
        return {'ev': 'died', 'why': 'other', 'exc': f'the server cannot be driven any further: {e}'[:200], 'need': 0,
                'shrunk': False, 'behind': False}

    def restart(self, why):
        self.died.append(why)
        self.abandon()
        self.restarts += 1
        if self.restarts > 6:
            # the server keeps dying: recorded as such (each death is a step of the trace)
            self.steps.append({'ev': 'stuck', 'h': -1})
            raise StopRun()
        if why == 'crash' and self.cont == 'back':
            # continuation: the daemon has returned to the branch it was on before
            self.apply_env({'e': 'switch', 'to': self.prev_best})
        CTL.crash_at = None
        self.fresh = False
        self.boot()
        self.last_sig = None
        self.pending_reopen = True

    def drive(self):
        self.pending_reopen = False
        exhausted_polls = 0
        steps = 0
        while True:
            steps += 1
            if steps > 20000:
                raise NoProgress('driver: too many steps')
            try:
                self.loop.run_until_idle()
                if self.task.done():
                    exc = self.task.exception() if not self.task.cancelled() else None
                    if isinstance(exc, CrashNow):
                        raise exc         # the crash point was hit on the loop thread (e.g. while reopening for serving)
                    self.steps.append(self.classify_death(exc))
                    self.restart('exception: ' + repr(exc)[:120])
                    continue
                jobs = self.loop.pending_jobs()
                if jobs:
                    job = jobs[0]
                    was_flush = 'flush_dbs' in job.name or 'backup_block' in job.name
                    job.execute()
                    if was_flush:
                        self.record('flushed' if 'flush_dbs' in job.name else 'backedup')
                    job.deliver()
                    continue
            except CrashNow:
                self.steps.append({'ev': 'crash', 'at': CTL.fired[0] if CTL.fired else 0,
                                   'kind': CTL.fired[1] if CTL.fired else '', 'what': CTL.fired[2] if CTL.fired else ''})
                self.restart('crash')
                continue
            if self.gates:
                g = self.gates[0]
                if self.pending_reopen:
                    self.pending_reopen = False
                    self.record('reopen', force=True)
                if g.name == 'height':
                    self.polls += 1
                    self.record('view')
                    more = self.consume_until(('poll',))
                    if more:
                        self.poll_idx += 1
                    if not more:
                        exhausted_polls += 1
                        # finished when the script is consumed and the server sits caught up on an idle poll
                        dh = self.tree.blocks[self.best].height
                        if exhausted_polls >= 2 and self.bp.caught_up and self.bp.reorg_count is None \
                                and self.bp.state.height >= dh and self.db.state.height == self.bp.state.height:
                            self.record('final', force=True)
                            return
                        if exhausted_polls > self.max_polls:
                            self.steps.append({'ev': 'stuck', 'h': self.db.state.height})
                            return
                    if self.tree.blocks[self.best].height > self.bp.state.height:
                        self.fresh = True
                elif g.name == 'lookback':
                    # daemon changes the model placed before this look-back round (never past a poll)
                    while self.env_events and self.env_events[0]['e'] != 'poll':
                        e = self.env_events.pop(0)
                        if e['e'] == 'lookback':
                            break
                        self.apply_env(e)
                elif g.name == 'caughtup':
                    self.record('caughtup', force=True)
                g.release()
                continue
            if not self.loop.advance():
                raise NoProgress('driver: deadlock')


def run_scenario(events, **kw):
    return IndexRun(events, **kw).run()
