'''C08 / C09: the real MemPool, wired to the real DB (lookup_utxos) and a fake daemon exactly as
controller.py wires it, next to the real BlockProcessor, on the deterministic loop.  Every
daemon call of the refresh and both worker jobs of lookup_utxos are gates, so a behaviour of
Mempool.tla (daemon events and index flushes placed between any two refresh steps) can be
replayed step by step.
'''
import asyncio
import threading

from harness.chainlab import SCRIPTS, SLOTS, CB
from harness.crashio import CTL
from harness.detloop import Gate, NoProgress
from harness.indexlab import IndexRun, StopRun


class MempoolRun(IndexRun):
    def __init__(self, events, *, chunk_size=1, pre=(), **kw):
        super().__init__([], **kw)
        for blk in pre:
            # blocks mined (and, once the block processor has settled, indexed) before anything else
            self.nb += 1
            self.tree.add(self.nb, self.best, list(blk))
            self.best = self.nb
        self.script = list(events)
        self.chunk_size = chunk_size
        self.pool = set()
        self.handovers = []
        self.model_chunks = []
        self.raw_gates = {}          # gate -> list of slots of that real chunk
        self.mp_exc = None
        self.since_list_env = True
        self.prev_view = set()
        self.touched_since = set()

    # ------------------------------------------------------------------ wiring
    def boot(self):
        super().boot()
        import electrumx.server.mempool as mpmod
        from electrumx.lib.util import chunks as real_chunks
        from electrumx.server.mempool import MemPool, MemPoolAPI
        lab = self
        self.mpmod = mpmod
        self.real_chunks = real_chunks
        mpmod.chunks = lambda items, size: real_chunks(items, lab.chunk_size if size == 200 else size)

        class API(MemPoolAPI):
            async def height(self):
                await lab.gate('mp_height')
                lab.daemon._h = lab.tree.blocks[lab.best].height
                return lab.daemon._h

            def cached_height(self):
                return lab.daemon._h

            def db_height(self):
                return lab.db.state.height

            async def mempool_hashes(self):
                await lab.gate('mp_list')
                return [lab.uni.hash[t][::-1].hex() for t in sorted(lab.pool)]

            async def raw_transactions(self, hex_hashes):
                hex_hashes = list(hex_hashes)
                slots = [lab.uni.slot_from_hash(bytes.fromhex(h)[::-1]) for h in hex_hashes]
                g = Gate(lab.loop, 'mp_raw', lab.gates)
                lab.raw_gates[id(g)] = slots
                g.slots = slots
                await g.future
                return [lab.uni.raw[t] if t in lab.pool else None for t in slots]

            async def lookup_utxos(self, prevouts):
                return await lab.db.lookup_utxos(prevouts)

            async def on_mempool(self, touched, height):
                lab.on_handover(set(touched), height)
                await lab.forward_on_mempool(touched, height)
        self.mempool = MemPool(self.coin, API(), refresh_secs=5.0)
        self.mp_event = asyncio.Event()
        self.mp_task = None

    async def forward_on_mempool(self, touched, height):
        pass

    def cleanup(self):
        try:
            self.mpmod.chunks = self.real_chunks
        except Exception:
            pass
        super().cleanup()

    def start_mempool(self):
        self.mp_task = self.loop.create_task(self.mempool.keep_synchronized(self.mp_event))

    # ------------------------------------------------------------------ projections
    def project(self):
        mp = self.mempool
        txs = []
        for h, tx in mp.txs.items():
            t = self.uni.slot_from_hash(h)
            txs.append([t, [[self.scripts.get(hx, 0), v] for hx, v in (tx.in_pairs or ())],
                        [[self.scripts.get(hx, 0), v] for hx, v in tx.out_pairs], tx.fee])
        hxs = []
        for hx, hashes in mp.hashXs.items():
            hxs.append([self.scripts.get(hx, 0), sorted(self.uni.slot_from_hash(h) for h in hashes)])
        return sorted(txs), sorted(hxs)

    def snap(self, ev, **extra):
        txs, hxs = self.project()
        st = {'ev': ev, 'txs': txs, 'hx': hxs, 'pool': sorted(self.pool)}
        st.update(extra)
        self.steps.append(st)
        return st

    def queries(self):
        '''The four public query methods for every script.'''
        mp = self.mempool
        out = []

        async def q():
            for s, hx in sorted(self.hashx.items()):
                bal = await mp.balance_delta(hx)
                sums = sorted([self.uni.slot_from_hash(x.hash), x.fee, int(bool(x.has_unconfirmed_inputs))]
                              for x in await mp.transaction_summaries(hx))
                utx = sorted([self.uni.slot_from_hash(u.tx_hash), u.tx_pos, u.value] for u in await mp.unordered_UTXOs(hx))
                sp = sorted([self.uni.slot_from_hash(bytes(h)), i] for h, i in await mp.potential_spends(hx))
                out.append([s, bal, sums, utx, sp])
        try:
            self.run_coro(q())
            return out, ''
        except Exception as e:
            return out, repr(e)[:150]

    def on_handover(self, touched, height):
        best_h = self.tree.blocks[self.best].height
        quiet = (not self.since_list_env and not self.window and self.db.state.height == best_h == height
                 and bytes(self.db.state.tip) == self.tree.blocks[self.best].hash)
        self.pending_handover = {'touched': sorted(self.scripts.get(hx, 0) for hx in touched), 'h': height, 'quiet': quiet}

    def flush_handover(self):
        ph = getattr(self, 'pending_handover', None)
        if ph is None:
            return
        self.pending_handover = None
        q, qerr = self.queries()
        cur = {t[0] for t in self.project()[0]}
        self.snap('handover', touched=ph['touched'], h=ph['h'], quiet=ph['quiet'], q=q, qerr=qerr,
                  prev=sorted(self.prev_view), chain=[b.bid for b in self.tree.chain(self.best)])
        self.prev_view = cur

    # ------------------------------------------------------------------ driving
    def settle_bp(self):
        '''Let the block processor index up to the daemon's tip and park at a poll.'''
        polled = 0
        stalled = 0
        for _ in range(3000 + 4 * self.tree.blocks[self.best].height):
            self.loop.run_until_idle()
            self.check_split()
            if self.task.done():
                exc = None if self.task.cancelled() else self.task.exception()
                self.steps.append(self.classify_death(exc))
                raise StopRun()
            jobs = [j for j in self.loop.pending_jobs() if self.is_bp_job(j)
                    and not (self.window and j is self.window['job'])]
            if jobs:
                self.before_bp_job(jobs[0])
                jobs[0].execute()
                jobs[0].deliver()
                continue
            g = next((x for x in self.gates if x.name in ('height', 'lookback', 'caughtup')), None)
            if g is None:
                if self.window:
                    self.close_window()
                    continue
                # the block processor may be inside a notification (on_block awaits the fan-out to the
                # sessions, whose status computations read the DB through worker jobs): let those run,
                # jobs the schedule is holding back last
                other = [j for j in self.loop.pending_jobs() if not self.is_bp_job(j)
                         and not any(k in j.name for k in ('lookup_hashXs', 'lookup_utxos', 'deserialize'))]
                free = [j for j in other if j not in getattr(self, 'hold', ())]
                if free:
                    free[0].deliver()
                    continue
                # a job the schedule is holding back is delivered here only when the block processor really waits for it
                # (it is inside a notification's fan-out) or nothing else has moved for a long time
                if other and (getattr(self, 'in_notify', 1) or stalled > 40):
                    other[0].deliver()
                    stalled = 0
                    continue
                if not self.loop.advance():
                    if other:
                        other[0].deliver()
                        continue
                    raise NoProgress('settle_bp: deadlock')
                stalled += 1
                continue
            tip = self.tree.blocks[self.best]
            if g.name == 'height' and self.bp.caught_up and self.bp.reorg_count is None \
                    and self.db.state.height == tip.height and bytes(self.db.state.tip) == tip.hash \
                    and polled >= 1:
                return
            if g.name == 'height':
                polled += 1
                if self.bp.caught_up and self.bp.reorg_count is None and self.bp.state.height >= tip.height \
                        and self.bp.state.height == self.db.state.height \
                        and bytes(self.bp.state.tip) not in [b.hash for b in self.tree.chain(self.best)]:
                    # the index sits on a branch the daemon left for one that is not longer: this is not
                    # noticed until the daemon's chain grows (C03); an operator-forced reorg brings it back
                    n = self.bp.state.height - self._common_height()
                    if n > 0:
                        self.bp.force_chain_reorg(n)
            g.release()
        raise NoProgress('settle_bp: did not settle')

    def no_progress_step(self, e):
        return {'ev': 'raised', 'exc': f'the mempool / block processor cannot be driven any further: {e}'[:200]}

    def before_bp_job(self, job):
        '''(a lab may let clients ask something right before a block-processor job runs)'''

    def check_split(self):
        '''(the full-stack lab stops its drivers here when a notification has been held at its first suspension point)'''

    @staticmethod
    def is_bp_job(j):
        return any(k in j.name for k in ('advance_block', 'flush_dbs', 'backup_block', 'delete', 'scan', 'find_legacy'))

    def mp_gate(self, name, pred=None):
        for g in self.gates:
            if g.name == name and (pred is None or pred(g)):
                return g
        return None

    def mp_job(self, kind, slots=None):
        for j in self.loop.pending_jobs():
            if kind in j.name:
                return j
        return None

    def step_mempool(self):
        self.loop.run_until_idle()
        if self.mp_task is not None and self.mp_task.done() and self.mp_exc is None:
            exc = None if self.mp_task.cancelled() else self.mp_task.exception()
            self.mp_exc = repr(exc)
            self.steps.append({'ev': 'raised', 'exc': repr(exc)[:200]})
            raise StopRun()
        self.flush_handover()

    def drive(self):
        self.pending_handover = None
        self.window = None
        self.flags = ['full'] * 1000          # one flush per block, as the model moves the index block by block
        self.settle_bp()
        self.start_mempool()
        self.step_mempool()
        chunk_of = {}                  # model chunk index -> first slot
        for e in self.script:
            k = e['e']
            newpool = set(e['pool']) if 'pool' in e else None
            if k == 'arrive':
                self.pool.add(e['t'])
                self.since_list_env = True
            elif k == 'evict':
                # descendants go too
                gone = {e['t']}
                while True:
                    more = {u for u in self.pool - gone if any(p in gone for p, _i in SLOTS[u]['ins'])}
                    if not more:
                        break
                    gone |= more
                self.pool -= gone
                self.since_list_env = True
            elif k == 'mine':
                self.nb += 1
                self.tree.add(self.nb, self.best, e['txs'])
                self.prev_best, self.best = self.best, self.nb
                self.pool -= set(e['txs'])
                self.since_list_env = True
            elif k == 'reorg':
                b = self.tree.blocks[self.best]
                if b.parent is not None:
                    self.pool |= set(b.slots[1:])
                    self.prev_best, self.best = self.best, b.parent.bid
                    self.shrunk = True
                    self.since_list_env = True
            elif k == 'dbassign':
                self.index_to_window()
                self.since_list_env = True
            elif k == 'dbcommit':
                self.close_window()
                self.sync_index()
                self.since_list_env = True
            elif k == 'list':
                g = self.mp_gate('mp_list')
                if g:
                    # not undisturbed while a flush has made its height visible without having committed
                    self.since_list_env = bool(self.window)
                    g.release()
            elif k == 'recheck':
                g = self.mp_gate('mp_height')
                if g:
                    g.release()
            elif k == 'process':
                order = e.get('order') or []
                chunk_of = {c + 1: order[c * self.chunk_size] for c in range((len(order) + self.chunk_size - 1) // self.chunk_size)}
            elif k == 'fetch':
                t = chunk_of.get(e['c'])
                g = self.mp_gate('mp_raw', lambda x: t in x.slots) or self.mp_gate('mp_raw')
                if g:
                    g.release()
                    self.loop.run_until_idle()
                    j = self.mp_job('deserialize')
                    if j:
                        j.deliver()
            elif k == 'lookuph':
                j = self.mp_job('lookup_hashXs')
                if j:
                    j.deliver()
            elif k == 'lookupv':
                j = self.mp_job('lookup_utxos.<locals>.lookup_utxos')
                if j:
                    j.deliver()
            elif k == 'sleep':
                self.loop.run_until_idle()
                if not self.mp_gate('mp_list') and self.loop.next_timer() is not None:
                    # only the refresh timer (and the block processor's poll timer) can be pending
                    self.loop.advance()
            if newpool is not None:
                self.pool = newpool          # the daemon's mempool as the model has it after this event
            self.step_mempool()
            self.snap('step', after=k)
        # let whatever is still in flight finish, then one undisturbed refresh on a synchronised index
        self.close_window()
        self.finish_refresh()
        self.sync_index()
        self.since_list_env = True
        for _ in range(2):
            self.full_refresh()
        self.snap('final')

    def index_to_window(self):
        '''Drive the block processor until its next flush has made the new height visible
        (DB.state assigned) but has not committed the UTXO batch yet; the flush job stays parked
        in a real thread before that commit.'''
        if getattr(self, 'window', None):
            return
        for _ in range(400):
            self.loop.run_until_idle()
            if self.task.done():
                return
            jobs = [j for j in self.loop.pending_jobs() if self.is_bp_job(j)]
            if jobs:
                job = jobs[0]
                if 'flush_dbs' in job.name and self.bp.state.height != self.db.state.height:
                    ctl = {'thread': None, 'match': ('batch', 'utxo'), 'count': 0, 'parked': threading.Event(),
                           'resume': threading.Event()}
                    err = []
                    done = threading.Event()

                    def body():
                        ctl['thread'] = threading.get_ident()
                        CTL.park = ctl
                        try:
                            job.execute()
                        except BaseException as e:
                            err.append(e)
                        finally:
                            done.set()
                            ctl['parked'].set()
                    th = threading.Thread(target=body, daemon=True)
                    th.start()
                    ctl['parked'].wait()
                    if done.is_set():
                        th.join()
                        CTL.park = None
                        job.deliver()
                        continue
                    self.window = {'job': job, 'thread': th, 'ctl': ctl, 'err': err}
                    return
                job.execute()
                job.deliver()
                continue
            g = next((x for x in self.gates if x.name in ('height', 'lookback', 'caughtup')), None)
            if g is None:
                if not self.loop.advance():
                    return
                continue
            tip = self.tree.blocks[self.best]
            if g.name == 'height' and self.bp.state.height >= tip.height and getattr(g, 'polled', False):
                return                      # nothing to index
            g.polled = True
            if g.name == 'height' and self.db.state.height == tip.height and bytes(self.db.state.tip) == tip.hash:
                return
            g.release()

    def close_window(self):
        w = getattr(self, 'window', None)
        if not w:
            return
        self.window = None
        w['ctl']['resume'].set()
        w['thread'].join()
        CTL.park = None
        if w['err']:
            raise w['err'][0]
        w['job'].deliver()

    def sync_index(self):
        if self.tree.blocks[self.best].height < self.bp.state.height or \
                bytes(self.db.state.tip) not in [b.hash for b in self.tree.chain(self.best)]:
            # the index is on a block the daemon dropped and the daemon's chain is not longer: only an
            # operator-forced reorg brings it back (a shorter or equal branch is not noticed, see C03)
            n = self.bp.state.height - self._common_height()
            if n > 0 and self.bp.caught_up:
                self.bp.force_chain_reorg(n)
        self.settle_bp()

    def _common_height(self):
        ours = []
        raw, n = self.run_coro(self.db.read_headers(0, self.db.state.height + 1))
        best = self.tree.chain(self.best)
        h = -1
        for k in range(min(n, len(best))):
            if self.coin.header_hash(raw[k * 80:(k + 1) * 80]) == best[k].hash:
                h = k
            else:
                break
        return h

    def pump_mempool_once(self):
        '''One enabled mempool step (gate or job), FIFO.  Returns False when there is none.'''
        self.loop.run_until_idle()
        self.check_split()
        for name in ('mp_raw', 'mp_height', 'mp_list'):
            g = self.mp_gate(name)
            if g:
                if name == 'mp_list':
                    self.since_list_env = bool(self.window)
                g.release()
                self.step_mempool()
                return True
        for kind in ('deserialize', 'lookup_hashXs', 'lookup_utxos'):
            j = self.mp_job(kind)
            if j:
                j.deliver()
                self.step_mempool()
                return True
        if not self.mp_gate('mp_list'):
            # the refresh may be inside a notification (on_mempool awaits the fan-out to the sessions)
            other = [j for j in self.loop.pending_jobs() if not self.is_bp_job(j)
                     and not (self.window and j is self.window['job'])]
            free = [j for j in other if j not in getattr(self, 'hold', ())]
            if free or (other and getattr(self, 'in_notify', 1)):
                (free or other)[0].deliver()
                self.step_mempool()
                return True
        return False

    def finish_refresh(self):
        for _ in range(500):
            self.loop.run_until_idle()
            g = self.mp_gate('mp_list')
            if g and not self.mp_gate('mp_raw') and not self.mp_job('lookup') and not self.mp_job('deserialize') \
                    and not self.mp_gate('mp_height'):
                return
            if not self.pump_mempool_once():
                if not self.loop.advance():
                    return

    def full_refresh(self):
        n0 = len([s for s in self.steps if s['ev'] == 'handover'])
        for _ in range(500):
            if len([s for s in self.steps if s['ev'] == 'handover']) > n0:
                return
            if not self.pump_mempool_once():
                if not self.loop.advance():
                    return


def run_mempool(events, **kw):
    r = MempoolRun(events, **kw)
    t = r.run()
    return t
