'''Drives the real PeerManager (discover_peers -> _import_peers -> _monitor_peer -> _should_drop_peer ->
_verify_peer) on the virtual-time loop against scripted remote ends, and records the run as a trace for
PeerLifeTrace.tla (implementation level) and PeerLifePropTrace.tla (property level).

Nothing in electrumx is edited: outgoing connections (peers.connect_rs), the wall clock (peers.time) and proxy
detection (peers.SOCKSProxy) are replaced in the module namespace for the duration of a run; two bound methods
of the PeerManager instance are wrapped to log when an attempt / a processed peer list has concluded.
'''
import asyncio
import os
import random
from ipaddress import IPv4Address

from harness.detloop import VirtualLoop

T0 = 20000
BASE = 1_000_000_000
STALE = 10800
HOSTS = {0: 'my.example.net', 1: 'a.example.org', 2: 'b.example.org', 3: 'c.example.org', 4: 'd.example.org'}
IPS = {0: '7.7.7.7', 1: '8.8.1.1', 2: '8.8.1.1', 3: '9.9.9.9', 4: '9.9.200.200'}
IDS = {h: k for k, h in HOSTS.items()}
HARD = ('badgenesis', 'badheight', 'badheader', 'notlisted', 'badtype')
OUR_HEIGHT = 100
HEADER = bytes(range(80))


class FakeDB:
    class state:
        height = OUR_HEIGHT

    async def raw_header(self, height):
        return HEADER


class Addr:
    def __init__(self, ip):
        self.host = IPv4Address(ip)
        self.port = 50001


class Clock:
    def __init__(self, loop):
        self.loop = loop

    def time(self):
        return BASE + self.loop.time()

    def __getattr__(self, name):
        import time
        return getattr(time, name)


class LifeRun:
    '''script: {'known0': [ids], 'conn': {id: [outcome, ...]}, 'gossip': {id: [[ids], ...]}, 'seed': n}'''

    def __init__(self, script, *, max_events=400, max_time=700000):
        self.script = script
        self.rng = random.Random(script.get('seed', 0))
        self.conn = {int(k): list(v) for k, v in script.get('conn', {}).items()}
        self.gossip = {int(k): [list(g) for g in v] for k, v in script.get('gossip', {}).items()}
        self.steps = []
        self.max_events = max_events
        self.max_time = max_time
        self.task_peer = {}
        self.errors = []

    # --- time and logging
    def t(self):
        return T0 + int(self.loop.time())

    def log(self, **ev):
        ev['t'] = self.t()
        self.steps.append(ev)

    def query(self):
        try:
            res = self.pm.on_peers_subscribe(False)
            ids = sorted({IDS.get(host, 99) for _ip, host, _d in res})
        except Exception as e:    # pylint:disable=broad-except
            self.errors.append(f'on_peers_subscribe raised {e!r}')
            ids = [98]
        self.log(ev='query', res=ids)

    # --- the remote ends
    def connect_rs(self, host, port, session_factory=None, **kwargs):
        run = self
        pid = IDS.get(host.lower(), None)

        class Ctx:
            async def __aenter__(ctx):
                outs = run.conn.get(pid, [])
                o = outs.pop(0) if outs else 'connfail'
                ctx.o = o
                if o == 'connfail':
                    run.log(ev='conn', p=pid, o=o)
                    kind = run.rng.randrange(3)
                    if kind == 0:
                        raise ConnectionRefusedError('refused')
                    if kind == 1:
                        raise OSError('unreachable')
                    from aiorpcx import TaskTimeout
                    raise TaskTimeout(10)
                return Session(pid, o)

            async def __aexit__(ctx, *exc):
                return False
        return Ctx()

    def make_session_class(self):
        run = self
        from aiorpcx import RPCError

        class Session:
            def __init__(self, pid, o):
                self.pid, self.o = pid, o
                self.sent_request_timeout = 0
                self.logged = False

            def remote_address(self):
                if not self.logged:
                    # (the code evaluates its bucket rule right after this call, with no suspension in between)
                    self.logged = True
                    run.log(ev='conn', p=self.pid, o=self.o)
                return Addr(IPS[self.pid])

            async def send_request(self, method, args=()):
                for _ in range(run.rng.randrange(3)):
                    await asyncio.sleep(0)
                if run.rng.random() < 0.3:
                    run.query()             # a client may ask at any suspension point
                o = self.o
                host = HOSTS[self.pid]
                if method == 'server.version':
                    if o == 'rpcerr':
                        raise RPCError(-1, 'busy')
                    if o == 'badtype':
                        return 'ElectrumX 1.20'
                    return ['ElectrumX 1.20', '1.4']
                if method == 'blockchain.headers.subscribe':
                    return {'height': OUR_HEIGHT + (40 if o == 'badheight' else 0), 'hex': HEADER.hex()}
                if method == 'blockchain.block.header':
                    return ('ff' * 80) if o == 'badheader' else HEADER.hex()
                if method == 'server.features':
                    hosts = {('other.example.org' if o == 'notlisted' else host): {'tcp_port': 50001, 'ssl_port': 50002}}
                    return {'hosts': hosts, 'genesis_hash': ('00' * 32 if o == 'badgenesis' else run.genesis),
                            'protocol_min': '1.4', 'protocol_max': '1.4', 'server_version': 'ElectrumX 1.20', 'pruning': None}
                if method == 'server.peers.subscribe':
                    gs = run.gossip.get(self.pid, [])
                    g = gs.pop(0) if gs else []
                    # (a remote end never introduces the server's own host name as a stranger)
                    g = [q for q in g if q != 0 or any(me in run.pm.peers for me in run.pm.myselves)]
                    self.g = g
                    return [[IPS[q], HOSTS[q], ['v1.4', 's50002', 't50001']] for q in g]
                if method == 'server.add_peer':
                    run.registered.append(self.pid)
                    return True
                raise RPCError(-32601, 'unknown method')
        return Session

    # --- the run
    def run(self):
        import logging
        logging.disable(logging.CRITICAL)
        os.environ.update(DB_DIRECTORY='/dev/shm', DAEMON_URL='http://u:p@localhost:1/', COIN='BitcoinSV', NET='regtest',
                          PEER_DISCOVERY='on', SERVICES='',
                          REPORT_SERVICES='tcp://my.example.net:50001,ssl://my.example.net:50002')
        os.environ.pop('PEER_ANNOUNCE', None)
        import electrumx.server.peers as peers_mod
        from electrumx.server.env import Env
        global Session
        self.loop = VirtualLoop()
        asyncio.set_event_loop(self.loop)
        Session = self.make_session_class()
        env = Env()
        self.genesis = env.coin.GENESIS_HASH
        self.registered = []
        saved = (peers_mod.connect_rs, peers_mod.time, peers_mod.SOCKSProxy, env.coin.PEERS)

        class NoProxy:
            @staticmethod
            async def auto_detect_at_host(host, ports, auth):
                return None
        known0 = list(self.script['known0'])
        try:
            peers_mod.connect_rs = self.connect_rs
            peers_mod.time = Clock(self.loop)
            peers_mod.SOCKSProxy = NoProxy
            env.coin.PEERS = [f'{HOSTS[k]} v1.4 s50002 t50001' for k in known0 if k != 0]
            pm = self.pm = peers_mod.PeerManager(env, FakeDB())
            if 0 not in known0:
                pm.myselves = []
            orig_drop, orig_note = pm._should_drop_peer, pm._note_peers

            async def drop(peer):
                pid = IDS.get(peer.host.lower(), 99)
                self.task_peer[asyncio.current_task()] = pid
                res = await orig_drop(peer)
                lg = peer.last_good
                self.log(ev='done', p=pid, dropped=int(bool(res)), tries=peer.try_count, bad=int(bool(peer.bad)),
                         lg=(T0 + int(lg - BASE)) if lg else 0)
                self.query()
                return res

            async def note(peers, limit=2, check_ports=False, source=None):
                before = set(pm.peers)
                res = await orig_note(peers, limit=limit, check_ports=check_ports, source=source)
                pid = self.task_peer.get(asyncio.current_task())
                if pid is not None and limit is not None:
                    self.log(ev='note', p=pid, g=sorted({IDS.get(p.host.lower(), 99) for p in peers}),
                             added=sorted(IDS.get(p.host.lower(), 99) for p in set(pm.peers) - before))
                return res
            pm._should_drop_peer, pm._note_peers = drop, note
            main = self.loop.create_task(pm.discover_peers())
            self.drive(main)
            main.cancel()
            try:
                self.loop.run_until_idle()
            except BaseException:      # pylint:disable=broad-except
                pass
        finally:
            peers_mod.connect_rs, peers_mod.time, peers_mod.SOCKSProxy, env.coin.PEERS = saved
            try:
                self.loop.shutdown()
            except Exception:      # pylint:disable=broad-except
                pass
            asyncio.set_event_loop(None)
        return {'known0': known0, 'steps': self.steps, 'script': self.script}

    def drive(self, main):
        loop = self.loop
        ok_times = {}
        while True:
            loop.run_until_idle()
            if main.done():
                exc = main.exception() if not main.cancelled() else None
                if exc:
                    self.errors.append(f'discover_peers ended with {exc!r}')
                return
            if len(self.steps) > self.max_events or loop.time() > self.max_time or not self.pm.peers:
                return
            # remember when remote ends passed (from what the harness itself served), to probe around staleness
            for s in self.steps:
                if s['ev'] == 'conn' and s['o'] == 'ok':
                    ok_times[s['p']] = s['t']
            nxt = loop.next_timer()
            if nxt is None:
                return
            nxt_t = T0 + int(nxt)
            probes = {nxt_t - 1}
            for t in ok_times.values():
                probes.update((t + STALE - 1, t + STALE, t + STALE + 1))
            for pt in sorted(p for p in probes if self.t() < p < nxt_t):
                loop._vtime = float(pt - T0)
                self.query()
            loop.advance()


def random_script(rng, *, universe=(0, 1, 2, 3, 4)):
    k0 = [p for p in universe if rng.random() < 0.6] or [1]
    conn, gossip = {}, {}
    style = rng.randrange(4)
    for p in universe:
        seq = []
        for _ in range(rng.randint(2, 14)):
            r = rng.random()
            if style == 0:       # mostly healthy
                seq.append('ok' if r < 0.8 else rng.choice(['connfail', 'rpcerr']))
            elif style == 1:     # flaky
                seq.append('ok' if r < 0.35 else rng.choice(['connfail', 'connfail', 'rpcerr']))
            elif style == 2:     # turns bad
                seq.append('ok' if r < 0.6 else rng.choice(HARD) if r < 0.8 else 'connfail')
            else:
                seq.append(rng.choice(['ok', 'ok', 'connfail', 'rpcerr'] + list(HARD)))
        conn[p] = seq
        gossip[p] = [sorted(rng.sample(universe, rng.randint(0, 4))) for _ in range(rng.randint(0, 3))]
    return {'known0': k0, 'conn': conn, 'gossip': gossip, 'seed': rng.randrange(1 << 30)}


def script_from_hist(hist, known0, seed=0):
    '''A behaviour exported by TLC from PeerLife.tla -> the environment script it contains.'''
    conn, gossip = {}, {}
    for e in hist:
        if e['ev'] == 'conn':
            conn.setdefault(e['p'], []).append(e['o'])
        elif e['ev'] == 'note':
            gossip.setdefault(e['p'], []).append(sorted(e['g']))
    return {'known0': sorted(known0), 'conn': conn, 'gossip': gossip, 'seed': seed}


if __name__ == '__main__':
    import json
    import sys
    r = LifeRun(random_script(random.Random(int(sys.argv[1]) if len(sys.argv) > 1 else 1)))
    doc = r.run()
    print(json.dumps(doc['script']))
    for s in doc['steps']:
        print(s)
    print(r.errors)
