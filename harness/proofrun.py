'''C11, full stack: proofs requested through real ElectrumX sessions at quiescence (after block
arrivals, a natural reorg, a same-height reorg, and with a header-proof request in flight across a
reorg) are folded with double SHA-256 and compared with the header's merkle root / the root of
all current block hashes.'''
import hashlib
import random

from harness.clientlab import FullStack
from harness.props.proofs import dsha, fold, root_of


class ProofRun(FullStack):
    def __init__(self, job):
        super().__init__([], reorg_limit=50)
        self.job = job
        self.rng = random.Random(job['seed'])
        self.bad = []
        self.checked = 0

    def mine(self, fill, parent=None):
        self.nb += 1
        self.tree.add(self.nb, self.best if parent is None else parent, [], fill=fill)
        self.prev_best, self.best = self.best, self.nb

    def drive(self):
        self.pending_handover = None
        self.window = None
        sizes = self.job['sizes']
        for n in sizes[:len(sizes) // 2]:
            self.mine(n - 1)
        self.settle_bp()
        self.start_mempool()
        self.full_refresh()
        self.start_serving()
        self.connect('p')
        self.quiesce()
        # some header proofs now, so that the header cache has been extended to a middle length
        tip = self.tree.blocks[self.best].height
        self.ask('p', 'blockchain.block.header', [1, max(1, tip - 1)])
        for n in sizes[len(sizes) // 2:]:
            self.mine(n - 1)
        self.quiesce()
        # (the header cache still ends where the proof above extended it to: the next proof has to extend it)
        # a header proof in flight across a natural reorg (fork two below the tip, one longer)
        tip = self.tree.blocks[self.best]
        cp = tip.height
        rid = self.request('p', 'blockchain.block.header', [1, cp])
        self.loop.run_until_idle()
        # let it pass the range check (its first read is the header itself); its next read extends the cache
        first = self.session_jobs()
        if first:
            first[0].deliver()
            self.loop.run_until_idle()
        for j in self.session_jobs():
            self.hold.add(j)
        hp_jobs = set(self.hold)
        # a TSC proof request for the block below the tip (about to be replaced), in flight across the whole reorganisation:
        # its first read (the block's tx hashes) is delivered, whatever it reads next waits until the new chain is indexed
        below = tip.parent
        pos = min(5, len(below.tx_hashes) - 1)
        self.request('p', 'blockchain.transaction.get_tsc_merkle', [below.tx_hashes[pos][::-1].hex(), below.height, 'txid', 'block_header'])
        self.loop.run_until_idle()
        mine_ = [j for j in self.session_jobs() if j not in self.hold]
        if mine_:
            mine_[0].deliver()
            self.loop.run_until_idle()
        for j in self.session_jobs():
            self.hold.add(j)
        base = tip.parent.parent
        rs = self.job.get('reorg_sizes', [3, 1, 2])
        self.mine(rs[0], parent=base.bid)
        self.mine(rs[1])
        self.mine(rs[2])
        # the block processor undoes and re-indexes; between an advance and the next flush the new blocks are
        # in memory only: by-height requests in that window must be refused or answered for the new chain
        oldchain = self.tree.chain(tip.bid)
        gap_done = False
        for _ in range(80):
            bj = self.bp_jobs()
            if not gap_done and bj and 'backup_block' in bj[0].name and not bj[0].executed and self.db.state.height == base.height + 1:
                # real threads: the worker undoing a block truncates the header cache and moves the files pointer before it
                # rolls back the databases and the chain state.  The job runs in a thread of its own and is parked before its
                # first LevelDB commit (the history roll-back); a header proof against the old tip is served meanwhile.  Done for
                # the last block undone: no later truncation can repair what this one leaves behind.
                gap_done = True
                self.gap_request(bj[0])
                continue
            self.micro('bp')
            # by-height requests for blocks about to be undone (they are still indexed: the answer is theirs) - whatever they
            # leave in the by-height caches must be gone when the reorganisation is over
            if self.db.state.height > base.height and self.bp.state is not None and self.bp.state.height <= tip.height \
                    and bytes(self.db.state.tip) != self.tree.blocks[self.best].hash:
                for h in range(base.height + 1, min(self.db.state.height, len(oldchain) - 1) + 1):
                    rr = self.request('p', 'blockchain.transaction.id_from_pos', [h, 0, True])
                    self.loop.run_until_idle()
                    for _ in range(20):
                        if rr in self.clients['p'].replies:
                            break
                        free = [j for j in self.session_jobs() if j not in self.hold]
                        if not free:
                            break
                        free[0].deliver()
                        self.loop.run_until_idle()
                    self.checked += 1
            if self.bp.state is not None and self.bp.state.height > self.db.state.height:
                newchain = self.tree.chain(self.best)
                for h in range(self.db.state.height + 1, min(self.bp.state.height, len(newchain) - 1) + 1):
                    rr = self.request('p', 'blockchain.transaction.id_from_pos', [h, 0, True])
                    self.loop.run_until_idle()
                    for _ in range(20):
                        if rr in self.clients['p'].replies:
                            break
                        free = [j for j in self.session_jobs() if j not in self.hold]
                        if not free:
                            break
                        free[0].deliver()
                        self.loop.run_until_idle()
                    rep = self.clients['p'].replies.get(rr)
                    self.checked += 1
                    if rep is not None and 'result' in rep and rep['result'].get('tx_hash') != newchain[h].tx_hashes[0][::-1].hex():
                        self.bad.append(f'window: id_from_pos({h}, 0) answered with a transaction that is not in the block now at that height')
            if self.db.state.height < cp - 1 and self.hold:
                # the chain is now shorter than the checkpoint the in-flight proof asked for: its read happens now
                for j in list(self.hold & hp_jobs):
                    j.deliver()
                self.hold -= hp_jobs
                self.loop.run_until_idle()
        for _ in range(200):
            if not self.micro('sess'):
                break
        self.quiesce()
        self.check_all('after natural reorg with a header proof in flight')
        # a reorg ending at the same height
        tip = self.tree.blocks[self.best]
        self.nb += 1
        self.tree.add(self.nb, tip.parent.bid, [], fill=4)
        self.prev_best, self.best = self.best, self.nb
        self.quiesce()
        self.check_all('after same-height reorg')
        self.mine(210)
        self.quiesce()
        self.check_all('after another block')

    def gap_request(self, job):
        import threading
        from harness.crashio import CTL
        ctl = {'thread': None, 'match': ('batch', 'hist'), 'count': 0, 'parked': threading.Event(), 'resume': threading.Event()}
        done = threading.Event()
        err = []

        def body():
            ctl['thread'] = threading.get_ident()
            CTL.park = ctl
            try:
                job.execute()
            except BaseException as e:      # pylint:disable=broad-except
                err.append(e)
            finally:
                done.set()
                ctl['parked'].set()
        th = threading.Thread(target=body, daemon=True)
        th.start()
        ctl['parked'].wait()
        if not done.is_set():
            h = self.db.state.height          # (not rolled back yet)
            rr = self.request('p', 'blockchain.block.header', [1, h])
            for _ in range(30):
                self.loop.run_until_idle()
                if rr in self.clients['p'].replies:
                    break
                free = [j for j in self.session_jobs() if j not in self.hold and j is not job]
                if not free:
                    break
                free[0].deliver()
            self.checked += 1
            self.gap_tried = True
        ctl['resume'].set()
        th.join(timeout=20)
        CTL.park = None
        if err:
            raise err[0]
        job.deliver()
        self.loop.run_until_idle()

    # ------------------------------------------------------------------ verification
    def expect_error(self, reply, what):
        self.checked += 1
        if 'result' in reply:
            self.bad.append(f'{what}: answered {str(reply["result"])[:80]} instead of being refused')
        elif reply['error'].get('code') == -32603:
            self.bad.append(f'{what}: internal error {reply["error"]}')

    def check_all(self, label):
        chain = self.tree.chain(self.best)
        tip = len(chain) - 1
        block_hashes = [b.hash for b in chain]
        for b in chain:
            n = len(b.tx_hashes)
            root = b.header[36:68]
            positions = range(n) if n <= 12 else sorted({0, 1, 2, n - 1, n - 2, n // 2} | {self.rng.randrange(n) for _ in range(6)})
            for pos in positions:
                txid = b.tx_hashes[pos][::-1].hex()
                r = self.ask('p', 'blockchain.transaction.get_merkle', [txid, b.height])
                self.verify_tx(r, b, pos, root, f'{label}: get_merkle h={b.height} pos={pos}/{n}')
                r = self.ask('p', 'blockchain.transaction.id_from_pos', [b.height, pos, True])
                self.checked += 1
                if 'result' not in r or r['result'].get('tx_hash') != txid:
                    self.bad.append(f'{label}: id_from_pos h={b.height} pos={pos}: {str(r)[:120]}')
                else:
                    got, idx = fold(b.tx_hashes[pos], r['result']['merkle'], pos)
                    if got != root or idx:
                        self.bad.append(f'{label}: id_from_pos merkle h={b.height} pos={pos} does not fold to the header root')
                for target in ('block_hash', 'merkle_root', 'block_header'):
                    r = self.ask('p', 'blockchain.transaction.get_tsc_merkle', [txid, b.height, 'txid', target])
                    self.checked += 1
                    if 'result' not in r:
                        self.bad.append(f'{label}: tsc h={b.height} pos={pos}: {str(r)[:120]}')
                        continue
                    res = r['result']
                    got, idx = fold(b.tx_hashes[pos], res['nodes'], res['index'])
                    want = {'block_hash': b.hash[::-1].hex(), 'merkle_root': root[::-1].hex(), 'block_header': b.header.hex()}[target]
                    if got != root or idx or res['index'] != pos or res['target'] != want or res['txOrId'] != txid:
                        self.bad.append(f'{label}: tsc proof h={b.height} pos={pos} target={target} does not verify')
                    # the TSC form differs from the classic one only by the duplicated-node marker
                    classic = self.ask('p', 'blockchain.transaction.get_merkle', [txid, b.height])['result']['merkle']
                    if len(classic) != len(res['nodes']) or any(a != c and a != '*' for a, c in zip(res['nodes'], classic)):
                        self.bad.append(f'{label}: tsc nodes differ from the classic branch at h={b.height} pos={pos}')
            # outside the block
            self.expect_error(self.ask('p', 'blockchain.transaction.id_from_pos', [b.height, n, True]), f'{label}: pos {n} of {n}')
            other = chain[(b.height + 1) % len(chain)]
            if other is not b:
                self.expect_error(self.ask('p', 'blockchain.transaction.get_merkle', [other.tx_hashes[0][::-1].hex(), b.height]),
                                  f'{label}: tx of height {other.height} asked at height {b.height}')
        # header proofs: every (height, cp_height) pair
        for cp in range(1, tip + 1):
            want_root = root_of(block_hashes[:cp + 1])
            for h in range(0, cp + 1):
                r = self.ask('p', 'blockchain.block.header', [h, cp])
                self.checked += 1
                if 'result' not in r:
                    self.bad.append(f'{label}: block.header({h}, {cp}) failed: {str(r)[:120]}')
                    continue
                res = r['result']
                got, idx = fold(block_hashes[h], res['branch'], h)
                if res['header'] != chain[h].header.hex() or got != want_root or idx or bytes.fromhex(res['root'])[::-1] != want_root:
                    self.bad.append(f'{label}: header proof ({h}, {cp}) does not fold to the root of the current block hashes')
        r = self.ask('p', 'blockchain.block.headers', [1, 3, tip])
        self.checked += 1
        if 'result' in r and r['result']['count']:
            last = 1 + r['result']['count'] - 1
            got, idx = fold(block_hashes[last], r['result']['branch'], last)
            if got != root_of(block_hashes[:tip + 1]):
                self.bad.append(f'{label}: block.headers proof does not verify')
        # outside the chain
        self.expect_error(self.ask('p', 'blockchain.block.header', [tip, tip + 1]), f'{label}: cp_height above the tip')
        self.expect_error(self.ask('p', 'blockchain.block.header', [2, 1]), f'{label}: height above cp_height')
        self.expect_error(self.ask('p', 'blockchain.block.header', [tip + 1, 0]), f'{label}: header above the tip')
        self.expect_error(self.ask('p', 'blockchain.transaction.get_merkle', ['ab' * 32, 1]), f'{label}: unknown tx')
        self.expect_error(self.ask('p', 'blockchain.transaction.get_merkle', [chain[1].tx_hashes[0][::-1].hex(), tip + 3]),
                          f'{label}: height above the tip')

    def verify_tx(self, r, b, pos, root, what):
        self.checked += 1
        if 'result' not in r:
            self.bad.append(f'{what}: {str(r)[:120]}')
            return
        res = r['result']
        got, idx = fold(b.tx_hashes[pos], res['merkle'], res['pos'])
        if res['pos'] != pos or res['block_height'] != b.height or got != root or idx:
            self.bad.append(f'{what}: does not fold to the merkle root in the header')


def run_proofs(job):
    r = ProofRun(job)
    r.hold = set()
    t = r.run()
    died = [s for s in t['steps'] if s.get('ev') in ('died', 'raised')]
    bad = r.bad + [f'task died: {d}' for d in died]
    return {'bad': bad, 'checked': r.checked, 'job': job,
            'summary': {'sizes': job['sizes'], 'checked': r.checked, 'bad': len(bad)}}
