'''C13 - transactions and blocks are parsed exactly, however the block file is chunked.

TLC: BlockReader.tla (iter_txs / _chunk_offsets / iter_txs_reversed at parse-attempt grain,
all block shapes x chunk sizes of the config).  Binding: every configuration of the model is
written as a real block file and streamed by the real OnDiskBlock forwards and in reverse;
what it yields is validated by TLC (BlockReaderTrace.tla); the offsets computed by the real
_chunk_offsets are compared with the model's (drift).  The model's premise about the parser
(and the property's serialise/parse/hash/truncation clause, which is byte-level and outside
what TLC can express) is discharged on the real parser by enumeration in the harness.
'''
import hashlib
import os
import random
import shutil
import struct
import tempfile

from harness.evidence import Outcome
from harness.tlc import Scratch, run_tlc, model_check, validate_traces, MachineryError

CATCH = None


def dsha(b):
    return hashlib.sha256(hashlib.sha256(b).digest()).digest()


def varint(n):
    if n < 253:
        return bytes([n])
    if n < 65536:
        return b'\xfd' + struct.pack('<H', n)
    if n < 4294967296:
        return b'\xfe' + struct.pack('<I', n)
    return b'\xff' + struct.pack('<Q', n)


def raw_tx(version, inputs, outputs, locktime):
    '''Independent serializer (BIP-style layout), inputs = [(prev_hash, idx, script, seq)],
    outputs = [(value, script)].'''
    out = [struct.pack('<i', version), varint(len(inputs))]
    for ph, idx, script, seq in inputs:
        out += [ph, struct.pack('<I', idx), varint(len(script)), script, struct.pack('<I', seq)]
    out.append(varint(len(outputs)))
    for value, script in outputs:
        out += [struct.pack('<q', value), varint(len(script)), script]
    out.append(struct.pack('<I', locktime))
    return b''.join(out)


def tx_of_len(L, uniq):
    '''A well-formed transaction of exactly L bytes, unique by locktime.'''
    if L == 10:
        return raw_tx(1, [], [], uniq)
    if 19 <= L < 60:
        s = L - 19
        return raw_tx(1, [], [(uniq, b'\x51' * s)], uniq)
    if L >= 60:
        s = L - 60
        ext = 0
        if s >= 253:
            ext = 2
        raw = raw_tx(2, [(hashlib.sha256(b'%d' % uniq).digest(), uniq % 7, b'\x00' * (s - ext), 0xfffffffe)],
                     [(5000 + uniq, b'')], uniq)
        if len(raw) != L:
            raise MachineryError(f'cannot build tx of length {L}')
        return raw
    raise MachineryError(f'no tx of length {L}')


class Lab:
    def __init__(self):
        self.dir = tempfile.mkdtemp(prefix='c13-', dir='/dev/shm')
        from electrumx.server.block_processor import OnDiskBlock
        self.ODB = OnDiskBlock
        self.saved = OnDiskBlock.path
        OnDiskBlock.path = self.dir
        self.k = 0

    def close(self):
        self.ODB.path = self.saved
        shutil.rmtree(self.dir, ignore_errors=True)

    def run(self, txs, v, c):
        '''Stream a block of the given raw txs (count varint of width v) with chunk size c.'''
        n = len(txs)
        if v == 1:
            cnt = bytes([n])
        elif v == 3:
            cnt = b'\xfd' + struct.pack('<H', n)
        elif v == 5:
            cnt = b'\xfe' + struct.pack('<I', n)
        else:
            cnt = varint(n)
        body = bytes(80) + cnt + b''.join(txs)
        self.k += 1
        hex_hash = '%064x' % self.k
        fn = self.ODB.filename(hex_hash, 1)
        with open(fn, 'wb') as f:
            f.write(body)
        index = {dsha(t): k + 1 for k, t in enumerate(txs)}
        res = {'n': n, 'fwd': [], 'rev': [], 'ferr': 0, 'rerr': 0, 'offs': []}
        blk = self.ODB(hex_hash, 1, len(body))
        blk.chunk_size = c
        try:
            with blk as b:
                for tx, h in b.iter_txs():
                    ok = index.get(h, 0)
                    if ok and tx.serialize() != txs[ok - 1]:
                        ok = 0
                    res['fwd'].append(ok)
        except Exception as e:
            res['ferr'] = 1
            res['fexc'] = repr(e)
        blk = self.ODB(hex_hash, 1, len(body))
        blk.chunk_size = c
        try:
            with blk as b:
                for tx, h in b.iter_txs_reversed():
                    ok = index.get(h, 0)
                    if ok and tx.serialize() != txs[ok - 1]:
                        ok = 0
                    res['rev'].append(ok)
        except Exception as e:
            res['rerr'] = 1
            res['rexc'] = repr(e)
        blk = self.ODB(hex_hash, 1, len(body))
        blk.chunk_size = c
        try:
            with blk as b:
                res['offs'] = list(b._chunk_offsets())
        except Exception:
            res['offs'] = []
        os.remove(fn)
        return res


def parser_premise(out, rng, quick):
    '''serialize(parse(b)) == b, hash == dsha256(b), every proper prefix fails with an
    exception iter_txs catches, and a transaction followed by other bytes is parsed to
    exactly its own length.  Returns list of failure descriptions.'''
    from struct import error as struct_error
    from electrumx.lib.tx import Deserializer
    catch = (AssertionError, IndexError, struct_error)
    bad = []
    shapes = []
    h32 = hashlib.sha256(b'x').digest()
    for nin, nout in [(0, 0), (1, 1), (2, 3), (252, 1), (253, 2), (1, 252), (1, 253), (3, 0)]:
        for slen in (0, 1, 75, 252, 253, 254, 600):
            if (nin >= 252 or nout >= 252) and slen > 1:
                continue
            ins = [(h32, (k * 7919) & 0xffffffff, bytes([k % 251]) * slen, 0xffffffff - k) for k in range(nin)]
            outs = [((1 << 62) + k if k % 2 else 0, bytes([0x6a]) * ((slen + k) % 700 if nout < 10 else slen))
                    for k in range(nout)]
            shapes.append(raw_tx(-1 if slen == 75 else 1, ins, outs, 0xffffffff if slen == 1 else slen))
    if not quick:
        shapes.append(raw_tx(1, [(bytes(32), 0xffffffff, b'\x03abc' * 20000, 0)], [(50, b'\x76' * 65535), (0, b'\x00' * 65536)], 7))
        shapes.append(raw_tx(1, [(h32, 1, b'', 0)], [(k, b'') for k in range(65536)], 9))
    evals = 0
    for raw in shapes:
        d = Deserializer(raw)
        try:
            tx, h = d.read_tx_and_hash()
            if d.cursor != len(raw) or tx.serialize() != raw or h != dsha(raw):
                bad.append(f'round trip / hash wrong for tx of {len(raw)} bytes')
        except Exception as e:
            bad.append(f'valid tx of {len(raw)} bytes rejected: {e!r}')
            continue
        # followed by garbage / the next tx: consumes exactly its own bytes
        d = Deserializer(raw + raw[:37])
        tx2, h2 = d.read_tx_and_hash()
        if d.cursor != len(raw) or h2 != dsha(raw):
            bad.append(f'tx of {len(raw)} bytes followed by other bytes parsed to cursor {d.cursor}')
        if len(raw) <= 3000:
            cuts = range(len(raw))
        else:
            cuts = sorted(set(list(range(0, 200)) + list(range(len(raw) - 300, len(raw)))
                              + [rng.randrange(len(raw)) for _ in range(1500)]))
        for cut in cuts:
            evals += 1
            try:
                d = Deserializer(raw[:cut])
                d.read_tx_and_hash()
                bad.append(f'prefix {cut}/{len(raw)} parsed as a transaction')
                break
            except catch:
                pass
            except Exception as e:
                bad.append(f'prefix {cut}/{len(raw)} raised {e!r}, which iter_txs does not catch')
                break
    out.add(parser_shapes=len(shapes), parser_prefix_evaluations=evals)
    return bad


QUICK_CHUNKS = sorted(set(list(range(9, 76)) + [99, 100, 101, 102, 103, 104] + list(range(199, 206))
                          + list(range(259, 266)) + [400, 700]))
THOROUGH_CHUNKS = sorted(set(list(range(9, 140)) + list(range(195, 215)) + list(range(255, 290))
                             + list(range(395, 410)) + [700, 1200]))


def check(pid, tier, seed):
    out = Outcome(pid, tier, seed, 'model_checking')
    quick = tier == 'quick'
    rng = random.Random(seed)
    chunks = QUICK_CHUNKS if quick else THOROUGH_CHUNKS
    maxtx = 3 if quick else 4
    consts = (f'CONSTANTS LenSet = {{10, 60, 61, 200}} MaxTx = {maxtx} VSet = {{1, 3}} '
              f'Chunks = {{{", ".join(map(str, chunks))}}}')
    invs = 'INVARIANT NoError\nINVARIANT ForwardExact\nINVARIANT ReverseExact\nINVARIANT NoOverread\nINVARIANT Aligned\n'
    lab = Lab()
    try:
        with Scratch('c13') as sc:
            sc.write('BR.cfg', f'{consts} Export = FALSE\nSPECIFICATION Spec\n{invs}CHECK_DEADLOCK FALSE\n')
            res = model_check(sc, 'BlockReader', 'BR.cfg', expect_actions=('FwdParse', 'FwdFail', 'OffParse', 'OffFail'),
                              timeout=3000)
            if res.violated:
                out.notes.append(f'TLC: model violates {res.violated}; verdict from the replay')
            elif not res.no_error:
                raise MachineryError(res.out[-2000:])
            out.add(states=res.distinct, transitions=res.generated)
            sc.write('BX.cfg', f'{consts} Export = TRUE\nSPECIFICATION Spec\nINVARIANT ExportCfg\nCHECK_DEADLOCK FALSE\n')
            res = run_tlc(sc, 'BlockReader', 'BX.cfg', workers=1, timeout=3000)
            cfgs = res.printed('CFG')
            if len(cfgs) < 1000:
                raise MachineryError(f'only {len(cfgs)} configurations exported:\n{res.out[-1500:]}')
            if quick and len(cfgs) > 6000:
                # stratified: keep every configuration whose offsets list is unusual, sample the rest
                keep = [c for c in cfgs if len(c['offs']) != 2]
                rest = [c for c in cfgs if len(c['offs']) == 2]
                rng.shuffle(keep)
                cfgs = keep[:5000] + rng.sample(rest, min(len(rest), 1000))
            runs = []
            drift = 0
            for cfgd in cfgs:
                txs = [tx_of_len(L, k + 1) for k, L in enumerate(cfgd['lens'])]
                r = lab.run(txs, cfgd['v'], cfgd['c'])
                r.update({'lens': cfgd['lens'], 'v': cfgd['v'], 'c': cfgd['c'], 'src': 'model'})
                if r['offs'] != cfgd['offs']:
                    drift += 1
                    if len(out.drift) < 3:
                        out.drift.append(f'_chunk_offsets {r["offs"]} != model {cfgd["offs"]} for lens={cfgd["lens"]} '
                                         f'v={cfgd["v"]} chunk={cfgd["c"]}')
                runs.append(r)
            out.add(impl_conformance={'accepted': len(cfgs) - drift, 'drifted': drift}, model_configs=len(cfgs))
            # independent random shapes: arbitrary lengths, canonical varints incl. >= 253 txs,
            # transactions spanning many chunks at any position
            for k in range(600 if quick else 6000):
                kind = rng.random()
                if kind < 0.1:
                    n = rng.randint(253, 300)
                    lens = [rng.choice([10, 10, 19, 60]) for _ in range(n)]
                    v = 0
                else:
                    n = rng.randint(1, 7)
                    lens = [rng.choice([10, 19, 25, 60, 61, 97, 200, 320, 1000]) for _ in range(n)]
                    v = rng.choice([1, 3, 5])
                c = rng.choice([9, 10, 16, 33, 59, 60, 61, 100, 250, 999, 5000, rng.randint(9, 400)])
                txs = [tx_of_len(L, j + 1) for j, L in enumerate(lens)]
                r = lab.run(txs, v, c)
                r.update({'lens': lens if n < 20 else f'{n} txs', 'v': v, 'c': c, 'src': 'random'})
                runs.append(r)
            slim = [{'n': r['n'], 'fwd': r['fwd'], 'rev': r['rev'], 'ferr': r['ferr'], 'rerr': r['rerr']} for r in runs]
            res, failures = validate_traces(sc, 'BlockReaderTrace', 'BlockReaderTrace.cfg', slim, workers=16)
            out.add(traces_validated_against_impl=len(runs), trace_states=res.distinct)
            seen = set()
            for f in sorted(failures, key=lambda f: f['tid']):
                if f['tid'] in seen:
                    continue
                seen.add(f['tid'])
                r = runs[f['tid'] - 1]
                if len(out.violations) < 5:
                    out.violation(f"{f['clause']} fails: lens={r['lens']} varint width={r['v']} chunk={r['c']}: "
                                  f"forward {r['fwd'][:12]} {r.get('fexc', '')} reverse {r['rev'][:12]} {r.get('rexc', '')}",
                                  {'kind': 'blockreader', 'lens': r['lens'], 'v': r['v'], 'c': r['c']})
            bad = parser_premise(out, rng, quick)
            for b in bad[:3]:
                out.violation(f'parser clause: {b}', {'kind': 'parser', 'what': b})
            for r in runs[:1] + runs[len(cfgs) // 2:len(cfgs) // 2 + 1] + runs[-1:]:
                out.sample({k: r[k] for k in ('lens', 'v', 'c', 'fwd', 'rev', 'offs', 'src')})
    finally:
        lab.close()
    out.add(exhaustive=True, harness_side=['serialise/parse/hash round trip and truncation at every prefix are byte-level '
                                           'and decided by enumeration in the harness (also discharges the model premise)'])
    out.assumptions += ['TLC', 'chunk sizes below 9 bytes (smaller than a varint) are excluded']
    return out.finish()


def replay(doc):
    r = doc['replay']
    if r.get('kind') != 'blockreader' or not isinstance(r['lens'], list):
        print(r)
        return 1
    lab = Lab()
    try:
        res = lab.run([tx_of_len(L, k + 1) for k, L in enumerate(r['lens'])], r['v'], r['c'])
    finally:
        lab.close()
    print(res)
    n = res['n']
    ok = res['fwd'] == list(range(1, n + 1)) and res['rev'] == list(range(n, 0, -1))
    if not ok:
        print(f"VIOLATION property={doc['property']} replay=(this file)")
    return 0 if ok else 1
