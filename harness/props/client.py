'''C07 - subscribers converge on the true status and tip;  C10 - answers are never stale at
quiescence;  C11 / C17 are in harness.props.proofs / harness.props.limits but share the stack.

TLC: Client.tla (notification fan-out, shared history cache, subscribe, reads executed at one
instant and delivered later).  Binding: every behaviour of Client.tla that ends quiescent
(transition coverage, VIEW hides the history) is mapped onto the full real stack
(BlockProcessor, DB, MemPool, Notifications, SessionManager, ElectrumX sessions speaking raw
JSON over fake transports; worker jobs of session reads executed / delivered separately), and
seeded random schedules of chain / mempool / client events and component micro-steps are run
on it.  At every harness-detected quiescence all queries are issued and validated by TLC
against the oracle (ClientTrace.tla) together with what every client holds.
'''
import json
import os
import random
import sys
from concurrent.futures import ProcessPoolExecutor

from harness.evidence import Outcome
from harness.tlc import Scratch, run_tlc, model_check, validate_traces, MachineryError

# a held status is checked in two halves: it hashes the history the server answers at quiescence (Converged, hashing
# done by the harness) and that history is the oracle's (HistoryFresh, decided by TLC)
CLAUSES = {'C07': {'Converged', 'HistoryFresh', 'NotBeforeQueryable', 'NoDeath'},
           'C10': {'HistoryFresh', 'BalanceFresh', 'UnspentFresh', 'ByHeightFresh', 'NoDeath'}}
X_SLOTS = [1, 4, 11, 3]        # transactions touching script 1 (the script hash of the Client.tla behaviours)


def cfg(nsess, changes, reads, variant, export):
    return (f'CONSTANTS Sessions = {{{", ".join(map(str, range(1, nsess + 1)))}}} MaxChanges = {changes} MaxReads = {reads} '
            f'Variant = "{variant}" Export = {"TRUE" if export else "FALSE"}\nSPECIFICATION Spec\nVIEW View\nCHECK_DEADLOCK FALSE\n'
            + ('' if export else 'INVARIANT Converged\nINVARIANT FreshAtQuiescence\n'))


def _run(job):
    import logging
    logging.disable(logging.CRITICAL)
    sys.stderr = open(os.devnull, 'w')
    from harness.clientrun import run_client
    try:
        t = run_client(job)
        t['job'] = job
        return t
    except Exception:
        import traceback
        return {'error': traceback.format_exc()[-1800:], 'job': job}


def random_schedule(rng, n):
    ops = []
    for _ in range(n):
        r = rng.random()
        if r < 0.10:
            ops.append({'op': 'block', 'touch': rng.random() < 0.6})
        elif r < 0.15:
            ops.append({'op': 'reorg', 'touch': rng.random() < 0.6, 'back': rng.random() < 0.5})
        elif r < 0.20:
            ops.append({'op': 'fork2', 'back': rng.random() < 0.5})
        elif r < 0.30:
            ops.append({'op': 'mempool'})
        elif r < 0.40:
            ops.append({'op': 'subscribe', 'c': rng.choice('ab'), 's': rng.choice([1, 1, 2, 3])})
        elif r < 0.44:
            ops.append({'op': 'unsubscribe', 'c': rng.choice('ab'), 's': rng.choice([1, 2, 3])})
        elif r < 0.54:
            ops.append({'op': 'query', 'c': rng.choice('ab'), 's': rng.choice([1, 1, 2, 3]),
                        'kind': rng.choice(['get_history', 'get_balance', 'listunspent', 'id_from_pos'])})
        elif r < 0.58:
            ops.append({'op': 'observe'})
        else:
            ops.append({'op': 'micro', 'kind': rng.choice(['bp', 'bp', 'mp', 'mp', 'sess_exec', 'sess', 'sess', 'timer'])})
    return ops


def check(pid, tier, seed):
    out = Outcome(pid, tier, seed, 'model_checking')
    quick = tier == 'quick'
    rng = random.Random(seed)
    with Scratch(pid.lower()) as sc:
        ns, ch, rd = (1, 3, 2) if quick else (2, 3, 2)
        sc.write('CM.cfg', cfg(ns, ch, rd, 'fixed', False))
        res = model_check(sc, 'Client', 'CM.cfg', timeout=3400)
        if res.violated:
            out.notes.append(f'TLC: Client.tla violates {res.violated}; verdict is taken from the real runs')
        elif not res.no_error:
            raise MachineryError(res.out[-1500:])
        out.add(states=res.distinct, transitions=res.generated)
        sc.write('CO.cfg', cfg(1, 2, 2, 'orig', False))
        res = run_tlc(sc, 'Client', 'CO.cfg', timeout=900)
        if not res.violated:
            raise MachineryError('Client.tla with Variant="orig" shows no violation: the model lost its teeth')
        out.notes.append(f'Client.tla Variant="orig" (code before fix 1f88a96) violates {res.violated} as expected')
        sc.write('CN.cfg', cfg(1, 3, 2, 'narrowms', False))
        res = run_tlc(sc, 'Client', 'CN.cfg', timeout=900)
        if not res.violated:
            raise MachineryError('Client.tla with Variant="narrowms" shows no violation: the model lost its teeth')
        out.notes.append(f'Client.tla Variant="narrowms" (mempool_statuses kept only while the flag is set) violates {res.violated} as expected')
        sc.write('CE.cfg', cfg(1, 3, 2, 'earlyinval', False))
        res = run_tlc(sc, 'Client', 'CE.cfg', timeout=900)
        if not res.violated:
            raise MachineryError('Client.tla with Variant="earlyinval" shows no violation: the model lost its teeth')
        out.notes.append(f'Client.tla Variant="earlyinval" (cache invalidated before the header refresh is awaited) violates {res.violated} as expected')
        sc.write('CX.cfg', cfg(1, 3, 2, 'fixed', True))
        res = run_tlc(sc, 'Client', 'CX.cfg', workers=8, timeout=1800)
        scns = {json.dumps(e, sort_keys=True): e for e in res.printed('SCN')}
        behs = list(scns.values())
        if len(behs) < 20:
            raise MachineryError(f'only {len(behs)} behaviours exported')
        rng.shuffle(behs)
        behs.sort(key=lambda evs: -sum(1 for e in evs if e['e'] in ('exec', 'deliver', 'reorg')))
        n = 400 if quick else 3000
        nflip = lambda evs: sum(1 for e in evs if e.get('flip'))

        def inside(evs):
            # reads executed / delivered and requests made while a notification waits for its header refresh
            c, open_ = 0, False
            for e in evs:
                if e['e'] == 'nbegin':
                    open_ = True
                elif e['e'] == 'notify':
                    open_ = False
                elif open_ and e['e'] in ('exec', 'deliver', 'subscribe', 'query'):
                    c += 1
            return c
        def stale_inside(evs):
            # a read executed before a change that touches the script hash and delivered while a notification waits
            c, open_, execd, stale = 0, False, set(), set()
            for e in evs:
                if e['e'] == 'nbegin':
                    open_ = True
                elif e['e'] == 'notify':
                    open_ = False
                elif e['e'] == 'exec':
                    execd.add(e['id'])
                elif e['e'] in ('block', 'reorg', 'mempool') and (e.get('touch') or e['e'] == 'mempool'):
                    stale |= execd
                elif e['e'] == 'deliver':
                    if open_ and e['id'] in stale:
                        c += 1
                    execd.discard(e['id'])
                    stale.discard(e['id'])
            return c
        chosen = behs[:n * 2 // 5]
        keys = {json.dumps(e, sort_keys=True) for e in chosen}
        flips = sorted((evs for evs in behs if nflip(evs) and json.dumps(evs, sort_keys=True) not in keys),
                       key=lambda evs: -(2 * nflip(evs) + sum(1 for e in evs if e['e'] in ('subscribe', 'notify'))))
        chosen += flips[:n * 3 // 10]
        keys = {json.dumps(e, sort_keys=True) for e in chosen}
        ins = sorted((evs for evs in behs if inside(evs) and json.dumps(evs, sort_keys=True) not in keys),
                     key=lambda evs: (-stale_inside(evs), -inside(evs)))
        chosen += ins[:n - len(chosen)]
        out.add(behaviours_with_flag_flips=sum(1 for evs in chosen if nflip(evs)),
                behaviours_with_reads_inside_a_notification=sum(1 for evs in chosen if inside(evs)))
        jobs = [{'kind': 'model', 'evs': evs} for evs in chosen]
        for k in range(160 if quick else 2000):
            jobs.append({'kind': 'random', 'ops': random_schedule(rng, rng.randint(15, 60)), 'seed': k})
        with ProcessPoolExecutor(max_workers=14) as ex:
            traces = list(ex.map(_run, jobs, chunksize=2))
        errors = [t for t in traces if 'error' in t]
        if errors:
            with open('/dev/shm/client_errors.json', 'w') as f:
                json.dump(errors[:5], f)
            raise MachineryError(f'{len(errors)} executions failed in the harness, first:\n{errors[0]["error"]}\n{str(errors[0]["job"])[:600]}')
        res, failures = validate_traces(sc, 'ClientTrace', 'ClientTrace.cfg',
                                        [{k: t[k] for k in ('tree', 'activation', 'steps')} for t in traces], workers=16, timeout=3000,
                                        invariants=CLAUSES[pid])
        nq = sum(1 for t in traces for s in t['steps'] if s.get('ev') == 'quiescent')
        out.add(traces_validated_against_impl=len(traces), trace_states=res.distinct, quiescent_observations=nq,
                model_behaviours=len([j for j in jobs if j['kind'] == 'model']),
                held_statuses=sum(len(s.get('held', [])) for t in traces for s in t['steps']))
        seen = set()
        for f in sorted(failures, key=lambda f: (f['tid'], f['l'])):
            if f['clause'] not in CLAUSES[pid] or f['tid'] in seen:
                continue
            seen.add(f['tid'])
            t = traces[f['tid'] - 1]
            step = t['steps'][f['l'] - 1]
            if len(out.violations) < 5:
                brief = {k: v for k, v in step.items() if k in ('ev', 'chain', 'pool', 'held', 'early', 'exc', 'why')}
                if f['clause'] in ('HistoryFresh', 'BalanceFresh', 'UnspentFresh'):
                    brief['answers'] = step.get('answers')
                if f['clause'] == 'ByHeightFresh':
                    brief['byh'] = step.get('byh')
                desc = t['job'].get('evs') or t['job'].get('ops')
                out.violation(f"{f['clause']} fails at quiescence: {json.dumps(brief)[:700]} after "
                              f"{[(e.get('e') or e.get('op'), e.get('touch'), e.get('id'), e.get('kind')) for e in desc][:50]}",
                              {'kind': 'client', 'job': t['job'], 'clause': f['clause']})
        for t in traces[:1] + traces[-1:]:
            out.sample({'job': str(t['job'])[:400], 'held': [s.get('held') for s in t['steps'] if s.get('ev') == 'quiescent'][-1:]})
    out.assumptions += ['TLC', 'statuses are hashed by the harness from the quiescent history answers that TLC validates in the '
                        'same step (every order of the mempool part is acceptable)', 'the confirmed index is what C01-C03 establish']
    return out.finish()


def replay(doc):
    t = _run(doc['replay']['job'])
    if 'error' in t:
        print(t['error'])
        return 2
    for s in t['steps']:
        print(json.dumps({k: v for k, v in s.items() if k in ('ev', 'chain', 'pool', 'held', 'early', 'exc')})[:500])
    with Scratch('clr') as sc:
        _res, failures = validate_traces(sc, 'ClientTrace', 'ClientTrace.cfg', [{k: t[k] for k in ('tree', 'activation', 'steps')}], workers=2,
                                         invariants=CLAUSES[doc['property']])
    failures = [f for f in failures if f['clause'] in CLAUSES[doc['property']]]
    if failures:
        print(f"VIOLATION property={doc['property']} replay=(this file) clause={failures[0]['clause']}")
        return 1
    print('replay: property holds on this execution')
    return 0
