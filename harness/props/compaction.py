'''C14 - history compaction never changes any script hash's history.

TLC: Compaction.tla (rows, flush counts, compaction cursor, tool batches / kill / resume /
set_flush_count, server start with clear_excess and cancel, later flushes and backups).
Binding: plans exported by TLC are executed with the real tool loop on the real DB/History
over LevelDB, interleaved with real BlockProcessor runs; histories are validated by TLC
against the oracle after every tool batch (ToolPreserves) and every server catch-up
(HistCorrect), and more blocks plus a reorg are indexed on top at the end.
'''
import json
import random
from concurrent.futures import ProcessPoolExecutor

from harness.evidence import Outcome
from harness.tlc import Scratch, run_tlc, model_check, validate_traces, MachineryError

INVS = ['KeysUnique', 'HistoryPreserved', 'ToolPreserves', 'FreshIdAbove']
CLAUSES = {'HistCorrect', 'ToolPreserves', 'TxNumMap', 'NoUnexpectedDeath', 'ChainIsPath'}


def cfg(ns, np_, maxrow, maxtx, steps, export, variant='code'):
    return (f'CONSTANTS NS = {ns} NP = {np_} MaxRow = {maxrow} MaxTx = {maxtx} MaxSteps = {steps} '
            f'Export = {"TRUE" if export else "FALSE"} Variant = "{variant}"\nSPECIFICATION Spec\nVIEW View\nCHECK_DEADLOCK FALSE\n'
            + ('' if export else ''.join(f'INVARIANT {i}\n' for i in INVS)))


def _run(job):
    import logging
    logging.disable(logging.CRITICAL)
    from harness.compactlab import run_compaction
    plan, maxrow = job
    try:
        t = run_compaction(plan, maxrow=maxrow)
        t['job'] = {'plan': plan, 'maxrow': maxrow}
        return t
    except Exception:
        import traceback
        return {'error': traceback.format_exc()[-1500:], 'job': {'plan': plan, 'maxrow': maxrow}}


def to_plan(evs, np_):
    plan = []
    cur = 0
    for e in evs:
        k = e['e']
        if k == 'batch':
            cur += e['k']
            plan.append({'e': 'batch', 'all': cur >= np_})
        elif k == 'flush':
            plan.append({'e': 'flush', 'scripts': e['scripts']})
        else:
            if k == 'tool':
                cur = 0
            plan.append({'e': k})
    return plan


def check(pid, tier, seed):
    out = Outcome(pid, tier, seed, 'model_checking')
    quick = tier == 'quick'
    rng = random.Random(seed)
    with Scratch('c14') as sc:
        for (ns, np_, mr, mt, st) in ([(3, 2, 2, 4, 11)] if quick else [(3, 2, 2, 5, 13), (3, 3, 3, 5, 12), (2, 2, 1, 4, 12)]):
            sc.write('CM.cfg', cfg(ns, np_, mr, mt, st, False))
            res = model_check(sc, 'Compaction', 'CM.cfg', timeout=3000,
                              expect_actions=('Flush', 'Backup', 'ServerStop', 'ServerStart', 'Serve', 'ToolStart',
                                              'CompactBatch', 'SetFlushCount', 'Kill'))
            if res.violated:
                out.notes.append(f'TLC: Compaction.tla violates {res.violated}; verdict is taken from the real runs')
            elif not res.no_error:
                raise MachineryError(res.out[-1500:])
            out.add(states=res.distinct, transitions=res.generated)
        # the model must have teeth: without the second cancellation (on the re-open for serving) an abandoned
        # compaction is resumed later and histories break
        sc.write('CV.cfg', cfg(2, 2, 2, 3, 14, False, variant='nocancelserve'))
        res = run_tlc(sc, 'Compaction', 'CV.cfg', timeout=1200)
        if 'HistoryPreserved' not in res.violated and 'KeysUnique' not in res.violated and 'FreshIdAbove' not in res.violated:
            raise MachineryError(f'Compaction.tla with Variant=nocancelserve shows no violation ({res.violated}): the model lost its teeth')
        out.notes.append(f'Compaction.tla with Variant=nocancelserve violates {res.violated} as expected')
        # plans: random walks of the model that contain tool activity
        sc.write('CX.cfg', cfg(3, 3, 2, 6, 16, True))
        res = run_tlc(sc, 'Compaction', 'CX.cfg', simulate=f'num={8000 if quick else 60000}', depth=17, seed=seed or 3,
                      workers=8, timeout=900)
        plans = {}
        for evs in res.printed('SCN'):
            kinds = [e['e'] for e in evs]
            if 'batch' in kinds and len(evs) >= 8:
                plans[json.dumps(evs, sort_keys=True)] = evs
        # keep maximal histories only: drop every history that is a proper prefix of another one
        prefixes = {json.dumps(evs[:n], sort_keys=True) for evs in plans.values() for n in range(8, len(evs))}
        kept = [evs for k, evs in plans.items() if k not in prefixes]
        if len(kept) < 10:
            raise MachineryError(f'only {len(kept)} plans exported')
        rng.shuffle(kept)

        import re

        def letters(evs):
            return ''.join({'flush': 'f', 'backup': 'b', 'stop': 's', 'start': 'S', 'serve': 'v', 'tool': 't', 'batch': 'c',
                            'setfc': 'x', 'kill': 'k'}[e['e']] for e in evs)

        def score(evs):
            return -sum(1 for e in evs if e['e'] in ('kill', 'batch', 'setfc', 'backup'))
        # strata (each gets its share of the plans, so that no family of histories crowds out another):
        strata = [
            # an abandoned compaction; a server that flushes while syncing, is caught up and stops before any flush in serving
            # mode; the tool again
            r'c+kSf+vstc',
            # an abandoned compaction; a server that starts already caught up (nothing flushed between its two opens), indexes
            # and stops; the tool again, to completion
            r'c+kSv[fb]*f[fb]*stc+x',
            # two complete compactions with indexing in between and after
            r'x.*f.*s.*t.*c.*x.*S?.*f',
            # an abandoned compaction followed by any server run that indexes
            r'ck.*S.*f',
        ]
        kept.sort(key=score)
        n = 40 if quick else 500
        take, seen_ = [], set()
        for pat in strata:
            got = [evs for evs in kept if re.search(pat, letters(evs)) and id(evs) not in seen_][:n // 5]
            take += got
            seen_ |= set(map(id, got))
        take += [evs for evs in kept if id(evs) not in seen_][:n - len(take)]
        out.add(plans_per_stratum=[sum(1 for evs in take if re.search(pat, letters(evs))) for pat in strata])
        jobs = []
        for evs in take:
            plan = to_plan(evs, 3)
            for maxrow in ((1, 2, 12500) if quick else (1, 2, 3, 12500)):
                jobs.append((plan, maxrow))
        with ProcessPoolExecutor(max_workers=14) as ex:
            traces = list(ex.map(_run, jobs, chunksize=2))
        errors = [t for t in traces if 'error' in t]
        if errors:
            raise MachineryError(f'{len(errors)} executions failed in the harness, first:\n{errors[0]["error"]}\n{errors[0]["job"]}')
        keys = ('tree', 'activation', 'limit', 'steps')
        res, failures = validate_traces(sc, 'IndexTrace', 'IndexTrace.cfg', [{k: t[k] for k in keys} for t in traces],
                                        workers=16, timeout=3000, invariants=CLAUSES)
        out.add(traces_validated_against_impl=len(traces), plans=len(take), trace_states=res.distinct,
                tool_batches=sum(1 for t in traces for s in t['steps'] if s.get('label') == 'batch'))
        # (not a measure of work: how many of the runs left the claim through the overflow carve-out - it varies with the plans drawn)
        out.notes.append(f"runs judged only up to the point where they left the claim (overflow carve-out): {sum(1 for t in traces if t.get('overflow'))}")
        seen = set()
        for f in sorted(failures, key=lambda f: (f['tid'], f['l'])):
            if f['clause'] not in CLAUSES or f['tid'] in seen:
                continue
            t = traces[f['tid'] - 1]
            step = t['steps'][f['l'] - 1]
            if t.get('overflow') and (f['clause'] != 'ToolPreserves' or f['l'] - 1 >= (t.get('overflow_at') or 0)):
                continue     # abandoned with more compacted rows than flushes: outside the claim from that point on
            seen.add(f['tid'])
            if len(out.violations) < 5:
                brief = {k: v for k, v in step.items() if k in ('ev', 'label', 'h', 'hdrs', 'hfc', 'cc', 'cfc', 'ufc', 'rows', 'exc')}
                out.violation(f"{f['clause']} fails at step {f['l']} {brief} plan={[e['e'] for e in t['job']['plan']]} "
                              f"maxrow={t['job']['maxrow']}", {'kind': 'compaction', 'job': t['job'], 'clause': f['clause']})
        for t in traces[:2]:
            out.sample({'plan': [e['e'] for e in t['job']['plan']], 'maxrow': t['job']['maxrow'],
                        'steps': [(s.get('ev'), s.get('label'), s.get('h'), s.get('hfc'), s.get('cc')) for s in t['steps']]})
    out.assumptions += ['TLC', 'the tool loop is executed in-process exactly as electrumx_compact_history does (kill = '
                        'closing the handles between batches)', 'LevelDB batch atomicity']
    return out.finish()


def replay(doc):
    j = doc['replay']['job']
    t = _run((j['plan'], j['maxrow']))
    if 'error' in t:
        print(t['error'])
        return 2
    for s in t['steps']:
        print({k: v for k, v in s.items() if k in ('ev', 'label', 'h', 'hdrs', 'hfc', 'cc', 'cfc', 'ufc', 'rows', 'exc')})
    keys = ('tree', 'activation', 'limit', 'steps')
    with Scratch('c14r') as sc:
        _res, failures = validate_traces(sc, 'IndexTrace', 'IndexTrace.cfg', [{k: t[k] for k in keys}], workers=2, invariants=CLAUSES)
    failures = [f for f in failures if f['clause'] in CLAUSES
                and not (t.get('overflow') and (f['clause'] != 'ToolPreserves' or f['l'] - 1 >= (t.get('overflow_at') or 0)))]
    if failures:
        print(f"VIOLATION property={doc['property']} replay=(this file) clause={failures[0]['clause']}")
        return 1
    print('replay: property holds on this execution')
    return 0
