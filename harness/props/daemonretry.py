'''C18 - daemon calls ride out transient faults and return only genuine results.

TLC: DaemonRetry.tla (retry/back-off/fail-over loop with the single / vector / replace-errors /
block-to-file processors).  Binding: every transition of its state graph (with a
representative fault path), all short fault sequences over the whole alphabet and random long
ones are executed by the real Daemon against a scripted HTTP session on the virtual-time
loop; the recorded events (attempt url+outcome, sleep, end) are validated by TLC against the
specification (DaemonRetryTrace.tla).
'''
import asyncio
import itertools
import json
import os
import random
import shutil
import tempfile

from harness.detloop import VirtualLoop
from harness.evidence import Outcome
from harness.tlc import Scratch, run_tlc, model_check, validate_traces, MachineryError

URLS = ['http://u:p@127.0.0.1:8332/', 'http://u:p@127.0.0.2:8332/', 'http://u:p@127.0.0.3:8332/']
TRANSIENT = ['timeout', 'disc', 'reset', 'connerr', 'clienterr', 'refused']
NITEMS = 4


def value(att, i):
    return 1000 * att + i


class Resp:
    def __init__(self, sess, att, outcome, request):
        self.sess, self.att, self.outcome, self.request = sess, att, outcome, request
        ctype = 'application/json'
        if outcome == 'refused':
            ctype = 'text/html; charset=ISO-8859-1'
        elif sess.kind == 'file':
            ctype = 'application/octet-stream'
        self.headers = {'Content-Type': ctype}
        self.reason = 'Internal Server Error'
        self.content = self

    async def __aenter__(self):
        import aiohttp
        o = self.outcome
        if o == 'timeout':
            raise asyncio.TimeoutError()
        if o == 'disc':
            raise aiohttp.ServerDisconnectedError()
        if o == 'reset':
            raise ConnectionResetError()
        if o == 'connerr':
            raise aiohttp.ClientConnectionError('cannot connect')
        if o == 'clienterr':
            raise aiohttp.ClientPayloadError('bad payload')
        return self

    async def __aexit__(self, *exc):
        return False

    async def text(self):
        return 'Work queue depth exceeded'

    async def json(self):
        o, att = self.outcome, self.att
        req = self.request
        if isinstance(req, dict):
            if o == 'warm':
                return {'result': None, 'error': {'code': -28, 'message': 'Loading block index'}, 'id': req['id']}
            if o == 'rpcerr':
                return {'result': None, 'error': {'code': -5, 'message': 'genuine'}, 'id': req['id']}
            return {'result': self.sess.encode(value(att, 0)), 'error': None, 'id': req['id']}
        items = []
        for i, r in enumerate(req):
            err = None
            if i == self.sess.bad_item and o == 'warmitem':
                err = {'code': -28, 'message': 'Loading block index'}
            if i == self.sess.bad_item and o == 'itemerr':
                err = {'code': -5, 'message': 'genuine'}
            items.append({'result': None if err else self.sess.encode(value(att, i)), 'error': err, 'id': r['id']})
        return items

    def iter_chunks(self):
        return self._chunks()

    async def _chunks(self):
        import aiohttp
        body = self.sess.block_body(self.att)
        parts = [body[k:k + 37] for k in range(0, len(body), 37)]
        if self.outcome == 'partial':
            for p in parts[:self.sess.partial_parts]:
                yield p, False
            if self.att % 2:
                raise aiohttp.ServerDisconnectedError()
            raise aiohttp.ClientPayloadError('Response payload is not completed')
        for p in parts:
            yield p, False


class ScriptedSession:
    def __init__(self, loop, kind, script, urls, bad_item=1, partial_parts=2):
        self.loop, self.kind, self.script, self.urls = loop, kind, list(script), urls
        self.att = 0
        self.events = []
        self.bad_item = bad_item
        self.partial_parts = partial_parts

    def encode(self, v):
        if self.kind == 'vecrepl':
            return ('%08x' % v)
        return v

    def block_body(self, att):
        return (b'BLOCK%04d' % att) * (20 + att)

    def _next(self, url, request):
        self.att += 1
        outcome = self.script[self.att - 1] if self.att <= len(self.script) else 'good'
        base = url[:url.index('/', 8) + 1]
        self.events.append({'ev': 'attempt', 'url': self.urls.index(base) if base in self.urls else -1,
                            'outcome': outcome, 't': self.loop.time()})
        return Resp(self, self.att, outcome, request)

    def post(self, url, data=''):
        return self._next(url, json.loads(data))

    def get(self, url):
        return self._next(url, None)


async def one_call(loop, kind, script, nurls, tmpdir, init_retry=0.25, max_retry=4.0):
    from electrumx.lib.coins import BitcoinSV
    from electrumx.server.daemon import Daemon, DaemonError
    urls = URLS[:nurls]
    d = Daemon(BitcoinSV, ','.join(urls), init_retry=init_retry, max_retry=max_retry)
    sess = ScriptedSession(loop, kind, script, urls)
    d.session = sess
    end = {'ev': 'end', 'how': 'other', 'att': 0, 'file': 'na', 'url': -1}
    fn = os.path.join(tmpdir, 'blk')
    try:
        if kind == 'single':
            r = await d.height()
            exp = {a: value(a, 0) for a in range(1, sess.att + 1)}
            if d.cached_height() != r:
                r = ('cached height differs', r)
        elif kind == 'vector':
            r = await d.block_hex_hashes(7, NITEMS)
            exp = {a: [value(a, i) for i in range(NITEMS)] for a in range(1, sess.att + 1)}
        elif kind == 'vecrepl':
            r = await d.getrawtransactions(['%064x' % i for i in range(NITEMS)])
            exp = {a: [bytes.fromhex('%08x' % value(a, i)) for i in range(NITEMS)] for a in range(1, sess.att + 1)}
        else:
            r = await d.get_block('ab' * 32, fn)
            exp = {a: len(sess.block_body(a)) for a in range(1, sess.att + 1)}
        last = sess.script[sess.att - 1] if sess.att <= len(sess.script) else 'good'
        if last == 'itemerr' and kind == 'vecrepl':
            exp = {a: [None if i == sess.bad_item else v for i, v in enumerate(vs)] for a, vs in exp.items()}
            end['how'] = 'answer_with_none' if r == exp.get(sess.att) else 'answer'
        else:
            end['how'] = 'answer'
        end['att'] = next((a for a in sorted(exp, reverse=True) if exp[a] == r), 0)
        if kind == 'file':
            with open(fn, 'rb') as f:
                content = f.read()
            end['file'] = 'full' if content == sess.block_body(sess.att) else 'other'
            end['file_len'] = len(content)
        end['value'] = repr(r)[:80]
    except DaemonError as e:
        end['how'] = 'daemonerror'
        end['att'] = sess.att
    except Exception as e:
        end['how'] = 'other'
        end['exc'] = repr(e)[:100]
    end['url'] = d.url_index
    end['t'] = loop.time()
    # derive sleep events from virtual time between attempts
    steps = []
    evs = sess.events
    for k, e in enumerate(evs):
        steps.append({'ev': 'attempt', 'url': e['url'], 'outcome': e['outcome']})
        nxt = evs[k + 1]['t'] if k + 1 < len(evs) else None
        if nxt is not None:
            dur = (nxt - e['t']) / init_retry
            steps.append({'ev': 'sleep', 'dur': int(round(dur)) if abs(dur - round(dur)) < 1e-9 else -1})
    steps.append({k: v for k, v in end.items() if k in ('ev', 'how', 'att', 'file', 'url')})
    return {'kind': kind, 'nurls': nurls, 'maxretry': int(round(max_retry / init_retry)), 'steps': steps,
            'script': list(script), 'end': end}


def run_script(kind, script, nurls, tmpdir, **kw):
    loop = VirtualLoop()
    try:
        return loop.run_task(one_call(loop, kind, script, nurls, tmpdir, **kw))
    finally:
        loop.shutdown()


def outcomes_of(kind):
    return TRANSIENT + {'single': ['warm', 'rpcerr', 'good'], 'vector': ['warmitem', 'itemerr', 'good'],
                        'vecrepl': ['warmitem', 'itemerr', 'good'], 'file': ['partial', 'good']}[kind]


def check(pid, tier, seed):
    out = Outcome(pid, tier, seed, 'model_checking')
    quick = tier == 'quick'
    rng = random.Random(seed)
    tmpdir = tempfile.mkdtemp(prefix='c18-', dir='/dev/shm')
    invs = ''.join(f'INVARIANT {i}\n' for i in ('EndsOnlyOnGenuine', 'NeverEndsOnFault', 'FileWhole', 'UrlInRange',
                                                 'BackoffBounded', 'SingleUrlNeverFailsOver'))
    try:
        with Scratch('c18') as sc:
            scripts = []
            for nurls in (1, 2, 3):
                consts = (f'CONSTANTS NUrls = {nurls} MaxRetry = 16 MaxAttempts = 20 '
                          f'Kinds = {{"single", "vector", "vecrepl", "file"}}')
                sc.write('DR.cfg', f'{consts} Export = FALSE\nSPECIFICATION Spec\nVIEW View\n{invs}CHECK_DEADLOCK FALSE\n')
                res = model_check(sc, 'DaemonRetry', 'DR.cfg', expect_actions=('Attempt', 'Sleep'), timeout=600)
                if res.violated:
                    out.notes.append(f'TLC: model violates {res.violated} (NUrls={nurls}); verdict from the replay')
                elif not res.no_error:
                    raise MachineryError(res.out[-2000:])
                out.add(states=res.distinct, transitions=res.generated)
                sc.write('DX.cfg', f'{consts} Export = TRUE\nSPECIFICATION Spec\nVIEW View\nCHECK_DEADLOCK FALSE\n')
                res = run_tlc(sc, 'DaemonRetry', 'DX.cfg', workers=1, timeout=600)
                trans = res.printed('TRANS')
                if len(trans) < 100:
                    raise MachineryError(f'only {len(trans)} transitions exported')
                scripts += [('model', t['kind'], t['steps'], nurls) for t in trans]
            nmodel = len(scripts)
            # all short sequences over the whole alphabet
            for kind in ('single', 'vector', 'vecrepl', 'file'):
                for n in (1, 2, 3) if quick else (1, 2, 3, 4, 5):
                    for seq in itertools.product(outcomes_of(kind), repeat=n):
                        if any(o in ('good', 'rpcerr', 'itemerr') for o in seq[:-1]):
                            continue
                        scripts.append(('short', kind, list(seq), rng.choice([1, 2, 3])))
            # random long fault sequences (mixing faults), also other init/max settings
            for _ in range(300 if quick else 30000):
                kind = rng.choice(['single', 'vector', 'vecrepl', 'file'])
                faults = [o for o in outcomes_of(kind) if o not in ('good', 'rpcerr', 'itemerr')]
                n = rng.randint(0, 22)
                seq = [rng.choice(faults) for _ in range(n)] + [rng.choice(['good', 'good', outcomes_of(kind)[-2]])]
                scripts.append(('random', kind, seq, rng.choice([1, 2, 3])))
            traces = []
            for src, kind, seq, nurls in scripts:
                kw = {}
                if src == 'random' and rng.random() < 0.3:
                    kw = {'init_retry': 0.5, 'max_retry': 2.0}
                t = run_script(kind, seq, nurls, tmpdir, **kw)
                t['src'] = src
                t['tid'] = len(traces) + 1
                traces.append(t)
            slim = [{k: t[k] for k in ('kind', 'nurls', 'maxretry', 'steps')} for t in traces]
            # two runs: TLC reports one violated invariant per state, and a wrong sleep (drift) poisons every later state of
            # its trace - the decisive clauses are checked on their own
            res, failures = validate_traces(sc, 'DaemonRetryTrace', 'DaemonRetryTrace.cfg', slim, workers=16,
                                            invariants={'NotStuck', 'Complete'})
            _res2, sleepf = validate_traces(sc, 'DaemonRetryTrace', 'DaemonRetryTrace.cfg', slim, workers=16,
                                            invariants={'SleepLaw'}, name='sleep.json')
            out.add(traces_validated_against_impl=len(traces), model_transitions_replayed=nmodel,
                    trace_states=res.distinct)
            dt = sorted({f['tid'] for f in sleepf})
            ndrift = len(dt)
            for tid in dt[:3]:
                t = traces[tid - 1]
                out.drift.append(f'sleep durations deviate from the back-off law: {t["kind"]} {t["script"]} -> '
                                 f'{[s.get("dur") for s in t["steps"] if s["ev"] == "sleep"]}')
            seen = set()
            for f in sorted(failures, key=lambda f: (f['tid'], f['l'])):
                if f['tid'] in seen:
                    continue
                seen.add(f['tid'])
                t = traces[f['tid'] - 1]
                if len(out.violations) < 5:
                    step = t['steps'][min(f['l'], len(t['steps'])) - 1]
                    out.violation(f"{f['clause']}: {t['kind']} call with {t['nurls']} URL(s), daemon script {t['script']}: "
                                  f"event {f['l']} {step} is not what the specification allows; end={t['end']}",
                                  {'kind': 'daemon', 'call': t['kind'], 'script': t['script'], 'nurls': t['nurls']})
            out.add(impl_conformance={'accepted': len(traces) - ndrift, 'drifted': ndrift})
            for t in (traces[5], traces[nmodel - 1], traces[-1]):
                out.sample({'kind': t['kind'], 'nurls': t['nurls'], 'script': t['script'], 'steps': t['steps'][-4:]})
    finally:
        shutil.rmtree(tmpdir, ignore_errors=True)
    out.add(exhaustive=True)
    out.assumptions += ['TLC', 'scripted aiohttp-like session (in-order batch replies)', 'virtual-time event loop']
    return out.finish()


def replay(doc):
    r = doc['replay']
    tmpdir = tempfile.mkdtemp(prefix='c18-', dir='/dev/shm')
    try:
        t = run_script(r['call'], r['script'], r['nurls'], tmpdir)
        for s in t['steps']:
            print(s)
        with Scratch('c18r') as sc:
            _res, failures = validate_traces(sc, 'DaemonRetryTrace', 'DaemonRetryTrace.cfg', invariants={'NotStuck', 'Complete'}, traces=
                                             [{k: t[k] for k in ('kind', 'nurls', 'maxretry', 'steps')}], workers=1)
        failures = [f for f in failures if f['clause'] != 'SleepLaw']
        if failures:
            print(f"VIOLATION property={doc['property']} replay=(this file) clause={failures[0]['clause']}")
            return 1
        print('replay: property holds on this script')
        return 0
    finally:
        shutil.rmtree(tmpdir, ignore_errors=True)
