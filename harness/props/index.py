'''C01 C02 C03 C04 C05 C15 - the indexing core.

For each property:
 1. TLC checks Index.tla exhaustively on the configurations of that property (design level).
 2. TLC exports scenarios (environment / scheduling histories) from the same specification:
    every catch-up transition of the state graph (VIEW hides the history) and random walks.
 3. Each scenario is executed by the real BlockProcessor + DB + History over LevelDB against
    the fake daemon on the deterministic loop; for C04 / C05 every durable operation of the
    run (file write incl. torn prefixes, batch commit, direct put) is a crash point, followed
    by a restart through the real open code (and the continuations of C05).
 4. Every recorded view is validated by TLC against the oracle (IndexTrace.tla).
'''
import json
import os
import random
import sys
import time
from concurrent.futures import ProcessPoolExecutor

from harness.evidence import Outcome, known_findings
from harness.tlc import Scratch, run_tlc, model_check, validate_traces, MachineryError

INVS = ['UtxoViewCorrect', 'SpendResolves', 'HistCorrectF7', 'HistOrdered', 'OurChainIsChain', 'CaughtUpFresh',
        'RecoveredCommitted', 'WindowPresent', 'PrunedOnOpen', 'UndoAvailable']

BASE = dict(Active='{1, 2, 3}', MaxBlocks=3, MaxPerBlock=2, MaxForks=0, Activation=2, ReorgLimit=2, Prefetch=2,
            FlushKinds='{"none", "hist", "full"}', MaxCrashes=0, MaxForced=0, MaxRestarts=0, CbKinds='{"miner"}')


def cfg(**kw):
    d = dict(BASE)
    d.update(kw)
    return d


# configurations per property: (name, constants, exhaustive?, budget_s)
CONFIGS = {
    'C01': {
        'quick': [('fwd', cfg()), ('coll', cfg(Active='{4, 5, 7, 8}', Prefetch=4, FlushKinds='{"none", "full"}')),
                  # (prefetch limit 4: the block processor takes batches of two blocks, the activation height inside a batch)
                  ('opret', cfg(Active='{9, 10, 12}', Activation=2, Prefetch=4, FlushKinds='{"none", "full"}'))],
        'thorough': [('fwd', cfg(MaxBlocks=4, Prefetch=4)), ('coll', cfg(Active='{4, 5, 6, 7, 8}', MaxBlocks=4, FlushKinds='{"none", "full"}')),
                     ('opret', cfg(Active='{9, 10, 12}', MaxBlocks=4)), ('multi', cfg(Active='{1, 11, 12, 9}', MaxBlocks=3))],
    },
    'C02': {
        'quick': [('fwd', cfg()), ('multi', cfg(Active='{9, 11, 12}', FlushKinds='{"none", "hist", "full"}')),
                  # outputs that are unspendable before / spendable from the activation height pay or do not pay a script
                  ('opret', cfg(Active='{9, 10, 12}', Activation=2, Prefetch=4, FlushKinds='{"none", "full"}')),
                  # coinbases that touch no script hash at all, in front of transactions that do
                  ('voidcb', cfg(Active='{1, 2}', CbKinds='{"miner", "void"}', FlushKinds='{"none", "full"}'))],
        'thorough': [('fwd', cfg(MaxBlocks=4)), ('multi', cfg(Active='{1, 9, 11, 12}', MaxBlocks=4)),
                     ('voidcb', cfg(Active='{1, 2, 3}', MaxBlocks=4, CbKinds='{"miner", "void"}', FlushKinds='{"none", "full"}')),
                     ('opret', cfg(Active='{9, 10, 12}', MaxBlocks=4, Activation=2))],
    },
    'C03': {
        'quick': [('reorg', cfg(Active='{1}', MaxPerBlock=1, MaxForks=1, MaxForced=1, MaxRestarts=1, FlushKinds='{"none", "full"}')),
                  ('reorg2', cfg(Active='{1, 2}', MaxPerBlock=2, MaxForks=1, MaxRestarts=1, FlushKinds='{"none"}')),
                  ('reorgmulti', cfg(Active='{11}', MaxPerBlock=1, MaxForks=1, MaxRestarts=1, FlushKinds='{"none", "full"}')),
                  # outputs whose spendability depends on the activation height, orphaned at / around that height
                  ('reorgopret', cfg(Active='{9}', MaxPerBlock=1, MaxForks=1, MaxForced=1, FlushKinds='{"none"}'))],
        'thorough': [('reorg', cfg(Active='{1, 2}', MaxBlocks=4, MaxPerBlock=1, MaxForks=1, MaxForced=1, MaxRestarts=1,
                                   FlushKinds='{"none", "full"}')),
                     ('reorgmulti', cfg(Active='{9, 11, 12}', MaxBlocks=4, MaxPerBlock=2, MaxForks=1, MaxRestarts=1,
                                        FlushKinds='{"none", "full"}')),
                     ('reorgopret', cfg(Active='{9, 10}', MaxBlocks=4, MaxPerBlock=1, MaxForks=1, MaxForced=1, FlushKinds='{"none", "full"}'))],
    },
    'C04': {
        'quick': [('crash', cfg(Active='{1, 2}', MaxBlocks=2, MaxCrashes=1))],
        'thorough': [('crash', cfg(Active='{1, 2}', MaxBlocks=3, MaxCrashes=1))],
    },
    'C05': {
        'quick': [('bkcrash', cfg(Active='{1}', MaxPerBlock=1, MaxForks=1, MaxCrashes=1, MaxForced=1, MaxRestarts=1,
                                  FlushKinds='{"none"}'))],
        'thorough': [('bkcrash', cfg(Active='{1, 2}', MaxPerBlock=1, MaxForks=1, MaxCrashes=1, MaxForced=1, MaxRestarts=1,
                                     FlushKinds='{"none", "full"}'))],
    },
    'C15': {
        'quick': [('undo1', cfg(Active='{}', MaxBlocks=3, MaxPerBlock=0, MaxForks=1, MaxForced=1, MaxRestarts=1, ReorgLimit=1,
                                FlushKinds='{"none"}')),
                  ('undo2', cfg(Active='{1}', MaxBlocks=3, MaxPerBlock=1, MaxForks=1, MaxForced=1, MaxRestarts=1, ReorgLimit=2,
                                FlushKinds='{"none", "full"}', MaxCrashes=1)),
                  # history-only flushes between the blocks of the window (they must leave the pending undo records alone)
                  ('undo3', cfg(Active='{1}', MaxBlocks=3, MaxPerBlock=1, MaxForks=0, MaxForced=1, MaxRestarts=0, ReorgLimit=2,
                                FlushKinds='{"none", "hist", "full"}'))],
        'thorough': [('undo3', cfg(Active='{1}', MaxBlocks=5, MaxPerBlock=1, MaxForks=1, MaxForced=1, MaxRestarts=1, ReorgLimit=3,
                                   FlushKinds='{"none"}'))],
    },
}

# which trace-spec clauses decide which property
CLAUSES = {
    'C01': {'UtxoViewCorrect', 'RawRowsClean', 'NoUnexpectedDeath', 'ChainIsPath'},
    'C02': {'HistCorrect', 'TxNumMap'},
    'C03': {'ChainIsPath', 'UtxoViewCorrect', 'RawRowsClean', 'HistCorrect', 'TxNumMap', 'HeaderProofs', 'CaughtUpFresh', 'FinalAtTip',
            'NoUnexpectedDeath', 'NotStuck'},
    'C04': {'ChainIsPath', 'UtxoViewCorrect', 'RawRowsClean', 'HistCorrect', 'TxNumMap', 'HeaderProofs', 'CaughtUpFresh', 'FinalAtTip',
            'RecoveredCommitted', 'NoUnexpectedDeath', 'NotStuck'},
    'C05': {'ChainIsPath', 'UtxoViewCorrect', 'RawRowsClean', 'HistCorrect', 'TxNumMap', 'HeaderProofs', 'CaughtUpFresh', 'FinalAtTip',
            'RecoveredCommitted', 'NoUnexpectedDeath', 'NotStuck'},
    'C15': {'WindowPresent', 'PrunedOnOpen', 'UndoAvailable'},
}


def cfg_text(c, export=False, invariants=True):
    consts = ' '.join(f'{k} = {v}' for k, v in c.items())
    lines = [f'CONSTANTS {consts} Export = {"TRUE" if export else "FALSE"}', 'SPECIFICATION Spec', 'VIEW View',
             'CHECK_DEADLOCK FALSE']
    if invariants:
        lines += [f'INVARIANT {i}' for i in INVS]
    return '\n'.join(lines) + '\n'


def params_of(c):
    return dict(activation=c['Activation'], reorg_limit=c['ReorgLimit'], prefetch=c['Prefetch'])


def _run(job):
    '''Worker: one real execution.  job = (events, params, crash_at, torn, cont).'''
    import logging
    logging.disable(logging.CRITICAL)
    from harness.indexlab import run_scenario
    events, params, crash_at, torn, cont = job
    try:
        t = run_scenario(events, crash_at=crash_at, torn=torn, cont=cont, **params)
        t['job'] = {'events': events, 'params': params, 'crash_at': crash_at, 'torn': torn, 'cont': cont}
        return t
    except Exception as e:
        import traceback
        return {'error': traceback.format_exc()[-1500:], 'job': {'events': events, 'params': params,
                                                                 'crash_at': crash_at, 'torn': torn, 'cont': cont}}


def backup_cut(t):
    '''The run was killed inside flush_backup after the history rollback commit and before the
    UTXO rollback commit.  Returns the index of the crash step or None.'''
    fired = t.get('fired')
    if not fired or fired[1] != 'batch' or fired[2] != 'utxo':
        return None
    ops = [list(o) for o in t['oplog']]
    at = fired[0]
    if at < 2 or ops[at - 2] != ['batch', 'hist']:
        return None
    if at >= 3 and ops[at - 3][0] == 'file':
        return None                      # a forward flush: file writes, history, UTXO
    for k, s in enumerate(t['steps']):
        if s.get('ev') == 'crash':
            return k
    return None


def f7_class(t, step_index):
    '''Classifies a HistCorrect failure of a C05 run whose rollback of block B was cut between
    its two commits.  While B is still indexed and its rollback has not been redone, the history
    of B is missing: before the server has caught up again the property claims nothing
    ('transient'); at a catch-up it is the known finding 'F7' (B is still on the daemon's chain,
    nothing re-adds the entries).  Anything else is a violation (None).'''
    k = backup_cut(t)
    if k is None or step_index <= k:
        return None
    steps = t['steps']
    reopen = next((x for x in steps[k + 1:] if x.get('ev') == 'reopen'), None)
    if reopen is None or reopen['h'] < 0:
        return None
    blk = reopen['tip']
    at = steps[step_index]
    if blk not in at.get('hdrs', []):
        return None
    for j in range(k + 1, step_index):
        if steps[j].get('ev') == 'backedup' and blk not in steps[j].get('hdrs', []):
            return None                  # the rollback was redone since; the hole cannot be this one
    return 'F7' if at.get('ev') in ('caughtup', 'final') else 'transient'


def scenarios_from(sc, name, c, quick, seed, rng, out):
    '''Exports scenarios from the model: catch-up transitions (VIEW) and random walks.'''
    c0 = dict(c)
    c0['MaxCrashes'] = 0          # crash points are enumerated on the real code by ordinal
    sc.write(f'X_{name}.cfg', cfg_text(c0, export=True, invariants=False))
    res = run_tlc(sc, 'Index', f'X_{name}.cfg', simulate=f'num={400 if quick else 2000}', depth=90 if quick else 140,
                  seed=seed or 7, workers=8, timeout=900)
    # keep maximal histories only (a history printed at one catch-up is a prefix of the one printed at the next).  The
    # output of a thorough run is hundreds of megabytes: two streaming passes over it with chained hashes, nothing kept
    # but the hashes of the complete histories and, in the end, the maximal histories themselves.

    def chain(evs):
        h, out_ = 0, []
        for e in evs:
            out_.append(h)                 # hash of the history before this event
            h = hash((h, json.dumps(e, sort_keys=True)))
        return out_, h
    full = set()
    for evs in res.iter_printed('SCN'):
        full.add(chain(evs)[1])
    nonmax = set()
    for evs in res.iter_printed('SCN'):
        before, _h = chain(evs)
        for n, e in enumerate(evs):
            if e['e'] == 'caughtup' and before[n] in full:
                nonmax.add(before[n])
    kept, seen_ = [], set()
    for evs in res.iter_printed('SCN'):
        h = chain(evs)[1]
        if h not in nonmax and h not in seen_:
            seen_.add(h)
            kept.append(evs)
    res.out = res.out[-3000:]
    if len(kept) < 5:
        raise MachineryError(f'{name}: only {len(kept)} scenarios exported:\n{res.out[-1500:]}')
    return kept


def batch_weight(evs):
    '''(longest run of advances without a poll in between, transactions mined before the first poll)'''
    best = cur = 0
    for e in evs:
        if e['e'] == 'advance':
            cur += 1
            best = max(best, cur)
        elif e['e'] == 'poll':
            cur = 0
    early = 0
    for e in evs:
        if e['e'] == 'poll':
            break
        if e['e'] == 'mine':
            early += len(e.get('txs', []))
    return (best, early)


def interesting(evs):
    kinds = [e['e'] for e in evs]
    return (kinds.count('fork') + kinds.count('switch') + kinds.count('force'), kinds.count('mine'), len(evs))


TLC_BUDGET = int(os.environ.get('VERIF_TLC_BUDGET_S', '300'))     # thorough tier: breadth-first budget per configuration
SCAL_FIELDS = ('memh', 'txc', 'uc', 'nc', 'nd', 'nu', 'npu', 'hfc', 'dbh', 'fsh')


def hist_run(evs):
    '''Longest run of history-only flushes not separated by a full flush (a catch-up flushes everything).'''
    best = cur = 0
    for e in evs:
        if e['e'] == 'advance' and e.get('flush') == 'hist':
            cur += 1
            best = max(best, cur)
        elif (e['e'] == 'advance' and e.get('flush') == 'full') or e['e'] in ('caughtup', 'backup', 'restart'):
            cur = 0
    return best


def check(pid, tier, seed):
    level = 'fault_enumeration' if pid in ('C04', 'C05') else 'model_checking'
    out = Outcome(pid, tier, seed, level)
    quick = tier == 'quick'
    rng = random.Random(seed)
    jobs = []
    with Scratch(pid.lower()) as sc:
        for name, c in CONFIGS[pid][tier]:
            # 1. design level
            sc.write(f'M_{name}.cfg', cfg_text(c))
            t0 = time.time()
            # (thorough: breadth-first within a time budget; a configuration that is not exhausted is reported as such)
            res = model_check(sc, 'Index', f'M_{name}.cfg', timeout=3400 if quick else TLC_BUDGET, soft=not quick)
            if res.violated:
                out.notes.append(f'TLC: Index.tla violates {res.violated} in {name}; verdict is taken from the replays')
            elif res.timed_out:
                out.notes.append(f'Index.tla {name}: NOT exhausted within {TLC_BUDGET} s ({res.distinct} distinct states, breadth-first, no violation)')
                out.coverage['exhaustive'] = False
                # ... and random walks far beyond the breadth-first frontier, with the same invariants
                sim = run_tlc(sc, 'Index', f'M_{name}.cfg', simulate='num=100000', depth=160, seed=seed or 11, workers=12,
                              timeout=150, soft=True)
                if sim.violated:
                    out.notes.append(f'TLC (simulation): Index.tla violates {sim.violated} in {name}; verdict is taken from the replays')
                out.notes.append(f'Index.tla {name}: simulation depth 160 for up to 150 s on top')
            elif not res.no_error:
                raise MachineryError(f'TLC did not finish {name}:\n{res.out[-1500:]}')
            out.add(states=res.distinct, transitions=res.generated)
            out.notes.append(f'Index.tla {name} {c}: {res.distinct} distinct states in {time.time() - t0:.0f}s')
            # 2. scenarios
            scns = scenarios_from(sc, name, c, quick, seed, rng, out)
            scns.sort(key=interesting, reverse=True)
            take = scns[:(30 if quick else 120)]
            rest = scns[len(take):]
            # a stratum of its own: several blocks fetched and advanced in one batch (no poll in between), the more
            # transactions in them the better - the property quantifies over every fetch batching
            batched = sorted((e for e in rest if batch_weight(e)[0] >= 2), key=batch_weight, reverse=True)[:(20 if quick else 60)]
            take += batched
            ids_ = set(map(id, take))
            rest = [e for e in rest if id(e) not in ids_]
            rng.shuffle(rest)
            take += rest[:(30 if quick else 120)]
            p = params_of(c)
            for evs in take:
                jobs.append((evs, p, None, None, None))
        out.add(scenarios=len(jobs))
        # 3. real executions (crash points are enumerated after a dry run)
        with ProcessPoolExecutor(max_workers=14) as ex:
            traces = list(ex.map(_run, jobs, chunksize=2))
            if pid in ('C04', 'C05', 'C15'):
                crash_jobs = []
                base = [t for t in traces if 'error' not in t]
                base.sort(key=lambda t: -t['ops'])
                if pid == 'C04':
                    # half by number of durable operations, half by the longest run of history-only flushes ahead of
                    # the UTXO flush (what clear_excess has to undo on restart)
                    n = 6 if quick else 18
                    byrun = sorted(base, key=lambda t: (-hist_run(t['job']['events']), -t['ops']))
                    chosen = base[:n // 2]
                    chosen += [t for t in byrun if t not in chosen][:n - len(chosen)]
                    out.notes.append(f"longest run of history-only flushes ahead of the UTXO flush among the crash bases: {max(hist_run(t['job']['events']) for t in chosen)}")
                elif pid == 'C15':
                    # the window must also be there after a crash inside a flush: every LevelDB commit of a few long runs
                    chosen = base[:(4 if quick else 10)]
                else:
                    chosen = [t for t in base if any(s.get('ev') == 'backedup' for s in t['steps'])][:6 if quick else 18]
                for t in chosen:
                    j = t['job']
                    for k in range(1, t['ops'] + 1):
                        kind = t['oplog'][k - 1][0]
                        if pid == 'C15' and kind == 'file':
                            continue
                        in_backup_window = True
                        conts = [None, 'back'] if pid == 'C05' else [None]
                        for cont in conts:
                            crash_jobs.append((j['events'], j['params'], k, None, cont))
                        if kind == 'file':
                            for torn in (0.34, 0.97):
                                crash_jobs.append((j['events'], j['params'], k, torn, None))
                out.add(crash_points=len(crash_jobs))
                traces += list(ex.map(_run, crash_jobs, chunksize=4))
        errors = [t for t in traces if 'error' in t]
        if errors:
            raise MachineryError(f'{len(errors)} executions failed in the harness, first:\n{errors[0]["error"]}\n{errors[0]["job"]}')
        # 4. validation
        keys = ('tree', 'activation', 'limit', 'steps')
        res, failures = validate_traces(sc, 'IndexTrace', 'IndexTrace.cfg', [{k: t[k] for k in keys} for t in traces],
                                        workers=16, timeout=3000 if quick else 7000, invariants=CLAUSES[pid], max_bytes=60_000_000 if quick else 15_000_000)
        out.add(traces_validated_against_impl=len(traces), trace_states=res.distinct,
                evaluations=len(traces), distinct_nontrivial=len({json.dumps(t['job'], sort_keys=True) for t in traces}),
                rule='one real execution per (scenario exported by TLC from Index.tla, crash ordinal, torn fraction, '
                     'continuation); distinct = distinct such tuples; every one indexes at least the genesis block')
        mine = CLAUSES[pid]
        known = known_findings(pid)
        f7_seen = [0]
        seen = set()
        other = {}
        for f in sorted(failures, key=lambda f: (f['tid'], f['l'])):
            if f['tid'] in seen:
                continue
            t = traces[f['tid'] - 1]
            if f['clause'] not in mine:
                other[f['clause']] = other.get(f['clause'], 0) + 1
                continue
            seen.add(f['tid'])
            step = t['steps'][f['l'] - 1]
            cls = f7_class(t, f['l'] - 1) if (pid == 'C05' and f['clause'] == 'HistCorrect') else None
            if cls == 'transient':
                seen.discard(f['tid'])
                continue
            if cls == 'F7' and any(k.get('id') == 'F7' for k in known):
                out.known_finding('F7 the process dies in flush_backup after the history rollback commit and before the '
                                  'UTXO rollback commit of a block the daemon still has: its history entries are lost '
                                  'for good (HistCorrect fails at the next catch-up)')
                f7_seen[0] += 1
                continue
            if len(out.violations) < 5:
                brief = {k: v for k, v in step.items() if k in ('ev', 'h', 'tip', 'hdrs', 'best', 'fresh', 'uc', 'txc', 'undo',
                                                                'why', 'exc', 'need', 'commits')}
                out.violation(f"{f['clause']} fails at recorded step {f['l']} {brief} "
                              f"(crash_at={t['job']['crash_at']} torn={t['job']['torn']} cont={t['job']['cont']})",
                              {'kind': 'index', 'job': t['job'], 'clause': f['clause'], 'step': f['l']})
        # implementation-level conformance on scalars (drift only): runs without an injected crash, matched in order per kind
        pairs = []
        for t in traces:
            if 'error' in t or t['job']['crash_at'] is not None or t.get('died'):
                continue
            # matched by (number of scenario polls consumed, kind, ordinal within that poll)
            exp, np_ = {}, 0
            for e in t['job']['events']:
                if e['e'] in ('fork', 'switch', 'force', 'reopen', 'crash'):
                    # from the first change of the daemon's mind on, the real prefetcher and the model's poll need not see
                    # the same daemon at the same instant: the replay is a behaviour of the model, but not this one
                    break
                if e['e'] == 'poll':
                    np_ += 1
                elif 'st' in e:
                    exp.setdefault((np_, e['e']), []).append(e['st'])
            got = {}
            for x in t.get('scal', []):
                got.setdefault((x['p'], x['k']), []).append(x['got'])
            for key in sorted(exp):
                for k, (a, b) in enumerate(zip(exp[key], got.get(key, []))):
                    pairs.append({'kind': f'{key[1]} (poll {key[0]})', 'k': k, 'exp': list(a), 'got': [b[f] for f in SCAL_FIELDS], 'tid0': traces.index(t)})
        if pairs:
            uniq = list({json.dumps([p_['exp'], p_['got']], sort_keys=True): p_ for p_ in pairs}.values())
            res2, drift = validate_traces(sc, 'IndexScalTrace', 'IndexScalTrace.cfg', [{'exp': p_['exp'], 'got': p_['got']} for p_ in uniq],
                                          workers=8, timeout=1200, name='scal.json')
            out.add(impl_scalar_observations=len(pairs), impl_scalar_distinct=len(uniq), impl_scalar_drift=len(drift))
            for d in drift[:3]:
                p_ = uniq[d['tid'] - 1]
                diff = {f: (a, b) for f, a, b in zip(SCAL_FIELDS, p_['exp'], p_['got']) if a != b}
                out.drift.append(f"Index.tla and the real block processor disagree after {p_['kind']} #{p_['k']} (model, code): {diff} "
                                 f"in scenario {[e['e'] for e in traces[p_['tid0']]['job']['events']][:40]}")
        if f7_seen[0]:
            out.notes.append(f'executions showing the known finding F7: {f7_seen[0]}')
        if other:
            out.notes.append(f'clauses of other properties failed on these runs (reported by their own checks): {other}')
        for t in traces[:2] + traces[-1:]:
            out.sample({'events': t['job']['events'][:12], 'crash_at': t['job']['crash_at'], 'cont': t['job']['cont'],
                        'observations': [(s.get('ev'), s.get('h'), s.get('tip')) for s in t['steps']][:14],
                        'durable_ops': t['ops']})
    out.assumptions += ['TLC', 'LevelDB batch atomicity', 'fake daemon serves orphaned blocks by hash',
                        'crash model: completed writes are durable, a file write in progress may leave any prefix']
    return out.finish()


def replay(doc):
    import logging
    logging.disable(logging.CRITICAL)
    j = doc['replay']['job']
    t = _run((j['events'], j['params'], j['crash_at'], j['torn'], j['cont']))
    if 'error' in t:
        print(t['error'])
        return 2
    for s in t['steps']:
        print({k: v for k, v in s.items() if k in ('ev', 'h', 'tip', 'hdrs', 'best', 'fresh', 'uc', 'txc', 'undo', 'why', 'exc')})
    keys = ('tree', 'activation', 'limit', 'steps')
    with Scratch('idxr') as sc:
        _res, failures = validate_traces(sc, 'IndexTrace', 'IndexTrace.cfg', [{k: t[k] for k in keys}], workers=2,
                                         invariants=CLAUSES[doc['property']])
    mine = CLAUSES[doc['property']]
    failures = [f for f in failures if f['clause'] in mine]
    if failures:
        print(f"VIOLATION property={doc['property']} replay=(this file) clause={failures[0]['clause']} step={failures[0]['l']}")
        return 1
    print('replay: property holds on this execution')
    return 0
