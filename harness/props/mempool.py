'''C08 - a synchronised mempool view is exact;  C09 - the tracker survives every daemon race.

TLC: Mempool.tla (refresh with every suspension point, daemon mempool / chain events and
index flushes between any two steps).  Binding: behaviours exported by TLC are replayed on the
real MemPool wired (as controller.py does) to the real DB and a fake daemon next to the real
BlockProcessor, with every daemon call and both lookup jobs as gates; the projections after
every step and the public query answers at every hand-over are validated by TLC against the
universe (MempoolTrace.tla).
'''
import json
import os
import random
import sys
from concurrent.futures import ProcessPoolExecutor

from harness.evidence import Outcome
from harness.tlc import Scratch, run_tlc, model_check, validate_traces, MachineryError

INVS = ['NoRaise', 'InverseIndex', 'NoWrongInputs', 'ExactWhenQuiet', 'TouchedComplete']
CLAUSES = {'C08': {'ExactWhenQuiet', 'TouchedComplete'},
           'C09': {'NoRaise', 'InverseIndex', 'NoWrongInputs', 'ExactWhenQuiet'}}


def cfg(mslots, chunk, blocks, refresh, events, reorg, pre, export):
    prec = '{' + ', '.join(map(str, pre[0] if pre else [])) + '}'
    return (f'CONSTANTS MSlots = {{{", ".join(map(str, mslots))}}} ChunkSize = {chunk} MaxBlocks = {blocks} MaxRefresh = {refresh} '
            f'MaxEvents = {events} Activation = 2 AllowReorg = {"TRUE" if reorg else "FALSE"} PreBlock = {prec} '
            f'Export = {"TRUE" if export else "FALSE"}\nSPECIFICATION Spec\nVIEW View\nCHECK_DEADLOCK FALSE\n'
            + ('' if export else ''.join(f'INVARIANT {i}\n' for i in INVS)))


CONFIGS = {
    'C08': {
        'quick': [('chain', [1, 2, 3], 1, 1, 3, 4, False, []), ('chain2', [1, 2, 3], 2, 1, 2, 4, False, []),
                  ('coll', [7, 8], 1, 1, 2, 3, False, [[4, 5, 6]]), ('opret', [9, 10, 12], 2, 1, 2, 3, False, []),
                  # a child with one confirmed input and one from a parent fetched in another chunk (deferred acceptance)
                  ('mix', [1, 13], 1, 1, 2, 3, False, [])],
        'thorough': [('mix', [1, 2, 13], 1, 1, 3, 4, False, []),('chain', [1, 2, 3], 1, 2, 3, 6, False, []), ('chain2', [1, 2, 3], 2, 2, 3, 5, False, []),
                     ('coll', [7, 8, 1], 1, 1, 3, 5, False, [[4, 5, 6]]), ('opret', [9, 10, 12, 11], 2, 1, 3, 4, False, [])],
    },
    'C09': {
        'quick': [('race', [1, 2, 3], 1, 2, 2, 4, True, []), ('race2', [1, 2, 11], 2, 1, 2, 4, True, []),
                  ('racecoll', [5, 8], 1, 1, 2, 4, False, [[4]]), ('racemix', [1, 13], 1, 1, 2, 4, False, [])],
        'thorough': [('race', [1, 2, 3], 1, 2, 3, 7, True, []), ('race2', [1, 2, 3, 11], 2, 2, 3, 5, True, []),
                     ('racecoll', [5, 8, 6], 1, 2, 3, 5, True, [[4]]), ('racemix', [1, 2, 13], 1, 2, 3, 5, True, [])],
    },
}


def _run(job):
    import logging
    logging.disable(logging.CRITICAL)
    sys.stderr = open(os.devnull, 'w')
    from harness.mempoollab import run_mempool
    evs, chunk, pre = job
    try:
        t = run_mempool(evs, chunk_size=chunk, pre=pre)
        t['job'] = {'events': evs, 'chunk': chunk, 'pre': pre}
        return t
    except Exception:
        import traceback
        return {'error': traceback.format_exc()[-1500:], 'job': {'events': evs, 'chunk': chunk, 'pre': pre}}


def check(pid, tier, seed):
    out = Outcome(pid, tier, seed, 'model_checking')
    quick = tier == 'quick'
    rng = random.Random(seed)
    jobs = []
    with Scratch(pid.lower()) as sc:
        for name, ms, chunk, blocks, refresh, events, reorg, pre in CONFIGS[pid][tier]:
            sc.write(f'M_{name}.cfg', cfg(ms, chunk, blocks, refresh, events, reorg, pre, False))
            res = model_check(sc, 'Mempool', f'M_{name}.cfg', timeout=3000)
            if res.violated:
                out.notes.append(f'TLC: Mempool.tla violates {res.violated} in {name}; verdict is taken from the replays')
            elif not res.no_error:
                raise MachineryError(res.out[-1500:])
            out.add(states=res.distinct, transitions=res.generated)
            out.notes.append(f'Mempool.tla {name}: slots {ms} chunk {chunk} pre {pre}: {res.distinct} distinct states')
            # every hand-over transition of the state graph, with a representative path (VIEW hides the history)
            sc.write(f'X_{name}.cfg', cfg(ms, chunk, blocks, refresh, events, reorg, pre, True))
            res = run_tlc(sc, 'Mempool', f'X_{name}.cfg', workers=12, timeout=1800)
            scns = {json.dumps(e, sort_keys=True): e for e in res.printed('SCN')}
            # plus random walks beyond the exhaustive bounds
            sc.write(f'Y_{name}.cfg', cfg(ms, chunk, blocks + 1, refresh + 1, events + 2, reorg, pre, True))
            res = run_tlc(sc, 'Mempool', f'Y_{name}.cfg', simulate=f'num={500 if quick else 10000}', depth=70,
                          seed=seed or 5, workers=8, timeout=900)
            scns.update({json.dumps(e, sort_keys=True): e for e in res.printed('SCN')})
            prefixes = set()
            for evs in scns.values():
                for n in range(len(evs) - 1):
                    if evs[n]['e'] == 'handover':
                        prefixes.add(json.dumps(evs[:n + 1], sort_keys=True))
            kept = [e for k, e in scns.items() if k not in prefixes]
            if len(kept) < 5:
                raise MachineryError(f'{name}: only {len(kept)} behaviours exported\n{res.out[-800:]}')
            rng.shuffle(kept)
            def score(evs):
                kinds = [e['e'] for e in evs]
                sc_ = sum(1 for k in kinds if k in ('arrive', 'evict', 'mine', 'reorg', 'dbassign'))
                # a hand-over, then a block confirming part of the pool and indexed, then another hand-over
                for i, e in enumerate(evs):
                    if e['e'] == 'mine' and e['txs'] and 'handover' in kinds[:i] and 'dbcommit' in kinds[i:]:
                        j = i + kinds[i:].index('dbcommit')
                        if 'handover' in kinds[j:]:
                            sc_ += 10
                            break
                # chunks of one refresh completing out of order (what is merged from which chunk, and when, matters)
                cs = []
                for e in evs:
                    if e['e'] == 'process':
                        cs = []
                    elif e['e'] == 'fetch':
                        if cs and e['c'] < cs[-1]:
                            sc_ += 6
                        cs.append(e['c'])
                # refresh steps inside the window where the new height is visible but not committed
                inwin = False
                for k in kinds:
                    if k == 'dbassign':
                        inwin = True
                    elif k == 'dbcommit':
                        inwin = False
                    elif inwin and k in ('process', 'lookuph', 'lookupv'):
                        sc_ += 4
                return -sc_
            kept.sort(key=score)
            for evs in kept[:(90 if quick else 600)]:
                jobs.append((evs, chunk, pre))
        with ProcessPoolExecutor(max_workers=14) as ex:
            traces = list(ex.map(_run, jobs, chunksize=2))
        errors = [t for t in traces if 'error' in t]
        if errors:
            raise MachineryError(f'{len(errors)} executions failed in the harness, first:\n{errors[0]["error"]}\n{errors[0]["job"]}')
        res, failures = validate_traces(sc, 'MempoolTrace', 'MempoolTrace.cfg', [{k: t[k] for k in ('tree', 'steps')} for t in traces],
                                        workers=16, timeout=3000, invariants=CLAUSES[pid])
        nquiet = sum(1 for t in traces for s in t['steps'] if s.get('ev') == 'handover' and s.get('quiet'))
        out.add(traces_validated_against_impl=len(traces), trace_states=res.distinct,
                handovers=sum(1 for t in traces for s in t['steps'] if s.get('ev') == 'handover'), quiet_handovers=nquiet)
        if nquiet < 10:
            raise MachineryError('vacuous: almost no quiet hand-over was observed')
        seen = set()
        for f in sorted(failures, key=lambda f: (f['tid'], f['l'])):
            if f['clause'] not in CLAUSES[pid] or f['tid'] in seen:
                continue
            seen.add(f['tid'])
            t = traces[f['tid'] - 1]
            step = t['steps'][f['l'] - 1]
            if len(out.violations) < 5:
                brief = {k: v for k, v in step.items() if k in ('ev', 'after', 'txs', 'hx', 'pool', 'touched', 'quiet', 'qerr', 'exc', 'prev')}
                out.violation(f"{f['clause']} fails at step {f['l']}: {json.dumps(brief)[:500]} after "
                              f"{[e['e'] for e in t['job']['events']][:40]}", {'kind': 'mempool', 'job': t['job'], 'clause': f['clause']})
        for t in traces[:2]:
            out.sample({'events': [(e['e'], e.get('t'), e.get('c')) for e in t['job']['events']][:30], 'pre': t['job']['pre'],
                        'handovers': [(s['touched'], s['quiet'], s['pool']) for s in t['steps'] if s['ev'] == 'handover']})
    out.assumptions += ['TLC', 'the confirmed side is what C01 establishes', 'chunk size 200 is replaced by the model\'s chunk size '
                        'through the module-level name electrumx.server.mempool.chunks (harness-side, no source change)',
                        'a tx that left the daemon mempool is returned as None by getrawtransactions']
    return out.finish()


def replay(doc):
    j = doc['replay']['job']
    t = _run((j['events'], j['chunk'], j['pre']))
    if 'error' in t:
        print(t['error'])
        return 2
    for s in t['steps']:
        if s['ev'] != 'step':
            print(json.dumps({k: v for k, v in s.items() if k != 'q'})[:600])
    with Scratch('mpr') as sc:
        _res, failures = validate_traces(sc, 'MempoolTrace', 'MempoolTrace.cfg', [{k: t[k] for k in ('tree', 'steps')}], workers=2,
                                         invariants=CLAUSES[doc['property']])
    failures = [f for f in failures if f['clause'] in CLAUSES[doc['property']]]
    if failures:
        print(f"VIOLATION property={doc['property']} replay=(this file) clause={failures[0]['clause']} step={failures[0]['l']}")
        return 1
    print('replay: property holds on this execution')
    return 0
