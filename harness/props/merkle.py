'''C12 - Merkle branches, roots and the incremental cache agree with the definition.

TLC: MerkleCache.tla (definition vs transcription, every reachable cache state answers
every query like a from-scratch computation).  Binding: every transition of the cache's
state graph (one representative path per state, exported by TLC) is replayed on the real
MerkleCache with a structural hash; every distinct answer the real code gives is validated by
TLC against the definition (MerkleResTrace.tla); the real cache's internal state is compared
op by op with the transcription (MerkleImplTrace.tla, drift only).
'''
import asyncio
import hashlib
import random

from harness.evidence import Outcome
from harness.tlc import Scratch, run_tlc, model_check, validate_traces, MachineryError


def shash(data):
    return b'<' + data + b'>'


def leaf(k):
    return b'[%03d]' % k


def parse_term(b, pos=0):
    '''bytes -> nested list term; returns (term, next_pos).'''
    c = b[pos:pos + 1]
    if c == b'[':
        return [int(b[pos + 1:pos + 4])], pos + 5
    if c == b'<':
        left, p = parse_term(b, pos + 1)
        right, p = parse_term(b, p)
        if b[p:p + 1] != b'>':
            raise ValueError('bad term')
        return [left, right], p + 1
    if c == b'*':
        return [], pos + 1
    raise ValueError(f'bad term at {pos}: {b[:40]!r}')


def term(b):
    try:
        t, p = parse_term(b, 0)
        if p != len(b):
            raise ValueError('trailing bytes')
        return t
    except Exception:
        # not a well-formed term: make it something no definition equals
        return [[999], [999]]


def dsha(x):
    return hashlib.sha256(hashlib.sha256(x).digest()).digest()


def my_fold(h, branch, index, f):
    for elt in branch:
        if elt == b'*':
            elt = h
        h = f(elt + h) if index & 1 else f(h + elt)
        index >>= 1
    return h


def my_root(hashes, f):
    hashes = list(hashes)
    while len(hashes) > 1:
        if len(hashes) & 1:
            hashes.append(hashes[-1])
        hashes = [f(hashes[k] + hashes[k + 1]) for k in range(0, len(hashes), 2)]
    return hashes[0]


class Collector:
    def __init__(self):
        self.distinct = {}
        self.evals = 0

    def add(self, kind, n, i, extra, tsc, ok, branch, root, where, src=None):
        self.evals += 1
        key = (kind, n, i, extra, tsc, ok, tuple(branch), root, tuple(src or range(1, n + 1)))
        if key not in self.distinct:
            self.distinct[key] = where

    def records(self):
        recs = []
        for (kind, n, i, extra, tsc, ok, branch, root, src), where in self.distinct.items():
            recs.append({'kind': kind, 'n': n, 'i': i, 'extra': extra, 'tsc': tsc, 'ok': ok, 'src': list(src),
                         'branch': [term(b) for b in branch], 'root': term(root), 'where': where})
        return recs


def pure_answers(col, N):
    from electrumx.lib.merkle import Merkle
    m = Merkle(hash_func=shash)
    for n in range(1, N + 1):
        hashes = [leaf(k) for k in range(1, n + 1)]
        nat = (n - 1).bit_length() if n > 1 else 0
        d = 0
        while (1 << d) < n:
            d += 1
        for i in range(n):
            for tsc in (False, True):
                for extra in (0, 1, 2):
                    try:
                        length = None if extra == 0 else d + extra
                        branch, root = m.branch_and_root(hashes, i, length, tsc_format=tsc)
                        col.add('pure', n, i, extra, tsc, True, branch, root, 'Merkle.branch_and_root')
                        if not tsc:
                            # root() and root_from_proof must agree as well
                            r2 = m.root(hashes, length)
                            r3 = m.root_from_proof(hashes[i], branch, i)
                            if r2 != root or r3 != root:
                                col.add('pure', n, i, extra, tsc, False, branch, r2 if r2 != root else r3,
                                        'Merkle.root/root_from_proof disagree')
                    except Exception as e:
                        col.add('pure', n, i, extra, tsc, False, [], b'*', f'raised {e!r}')
    return m


async def run_ops(ops, N, col, query_lens, hash_func=shash, leaves=None):
    '''Replay an op sequence on a real MerkleCache; returns per-op projections.'''
    from electrumx.lib.merkle import Merkle, MerkleCache
    ids = list(range(1, N + 1))
    gen = 0
    src = list(leaves) if leaves else [leaf(k) for k in ids]

    async def source(start, count):
        return src[start:start + count]

    cache = MerkleCache(Merkle(hash_func=hash_func), source)
    steps = []
    for op in ops:
        a = op['a']
        try:
            if op['op'] == 'init':
                await cache.initialize(a)
            elif op['op'] == 'ext':
                await cache.branch_and_root(a, 0)
            else:
                cache.truncate(a)
                if op.get('chg'):
                    # the source changes beyond the truncation point (a reorganisation)
                    gen += 1
                    for k in range(a, N):
                        ids[k] = k + 1 + 100 * gen
                        src[k] = leaf(ids[k]) if hash_func is shash else hash_func(src[k] + b'%d' % gen)
            err = None
        except Exception as e:
            err = repr(e)
        st = {'op': op['op'], 'a': a, 'chg': bool(op.get('chg'))}
        if hash_func is shash:
            st.update({'len': cache.length, 'dh': cache.depth_higher, 'level': [term(x) for x in cache.level]})
        if err:
            st['err'] = err
            st['len'] = -1
        steps.append(st)
    # property-level: every query after the sequence
    for n in query_lens:
        for i in range(n):
            for tsc in (False, True):
                try:
                    branch, root = await cache.branch_and_root(n, i, tsc_format=tsc)
                    ok = True
                except Exception as e:
                    branch, root, ok = [], b'*', False
                if hash_func is shash:
                    col.add('cache', n, i, 0, tsc, ok, branch, root, {'ops': ops}, src=ids[:n])
                else:
                    good = ok and my_fold(src[i], branch, i, hash_func) == root == my_root(src[:n], hash_func)
                    col.evals += 1
                    if not good:
                        col.distinct[('sha', n, i, 0, tsc, False, (), b'*', ())] = {'ops': ops}
    return steps


def check(pid, tier, seed):
    out = Outcome(pid, tier, seed, 'model_checking')
    quick = tier == 'quick'
    N = 8 if quick else 14
    NM = 12 if quick else 20
    G = 1 if quick else 2
    rng = random.Random(seed)
    with Scratch('c12') as sc:
        sc.write('MC.cfg', f'CONSTANTS N = {NM} MaxOps = 8 MaxGen = 2 Export = FALSE\nSPECIFICATION Spec\nVIEW View\n'
                 'INVARIANT PureOnce\nINVARIANT CacheOK\nINVARIANT Coherent\nCHECK_DEADLOCK FALSE\n')
        res = model_check(sc, 'MerkleCache', 'MC.cfg', timeout=3000)
        if res.violated:
            out.notes.append(f'TLC: model violates {res.violated}; verdict is taken from the replay')
        elif not res.no_error:
            raise MachineryError(res.out[-2000:])
        out.add(states=res.distinct, transitions=res.generated)
        out.notes.append(f'MerkleCache.tla N={NM}: {res.distinct} cache states, {res.generated} transitions; '
                         f'PureOK over all n<={NM}, i, paddings 0..2, both formats')
        # export every transition with a representative path
        sc.write('MX.cfg', f'CONSTANTS N = {N} MaxOps = 8 MaxGen = {G} Export = TRUE\nSPECIFICATION Spec\nVIEW View\n'
                 'CHECK_DEADLOCK FALSE\n')
        res = run_tlc(sc, 'MerkleCache', 'MX.cfg', workers=1, timeout=3000)
        if not res.no_error:
            raise MachineryError(res.out[-2000:])
        seqs = res.printed('TRANS')
        if len(seqs) < 50:
            raise MachineryError(f'only {len(seqs)} transitions exported')
        col = Collector()
        pure_answers(col, NM)
        loop = asyncio.new_event_loop()
        traces = []
        all_lens = list(range(1, N + 1))
        for k, ops in enumerate(seqs):
            lens = all_lens if (quick or k % 4 == 0) else sorted(set(
                x for x in (ops[-1]['a'] - 1, ops[-1]['a'], ops[-1]['a'] + 1, N, 1, rng.randint(1, N))
                if 1 <= x <= N))
            steps = loop.run_until_complete(run_ops(ops, N, col, lens))
            traces.append({'tid': k + 1, 'steps': steps, 'ops': ops})
        # random longer op sequences (independent of the model's paths)
        nrand = 300 if quick else 3000
        for k in range(nrand):
            n0 = rng.randint(1, N)
            ops = [{'op': 'init', 'a': n0}] + [{'op': rng.choice(['ext', 'trunc']), 'a': rng.randint(1, N), 'chg': rng.random() < 0.5}
                                                for _ in range(rng.randint(1, 10))]
            steps = loop.run_until_complete(run_ops(ops, N, col, [rng.randint(1, N) for _ in range(3)]))
            traces.append({'tid': len(traces) + 1, 'steps': steps, 'ops': ops})
        # the same sequences with double SHA-256 over random leaves, checked with an independent fold
        sha_leaves = [hashlib.sha256(b'%d' % k).digest() for k in range(N)]
        for ops in seqs[::7]:
            loop.run_until_complete(run_ops(ops, N, col, [ops[-1]['a'], N], hash_func=dsha, leaves=sha_leaves))
        loop.close()
        # branch_length / tree_depth on every power-of-two boundary up to 2^62
        from electrumx.lib.merkle import Merkle
        m = Merkle()
        blen = []
        for k in range(0, 63):
            for d in (-1, 0, 1):
                n = (1 << k) + d
                if n < 1:
                    continue
                try:
                    blen.append({'kind': 'blen', 'k': k, 'd': d, 'bl': m.branch_length(n), 'td': m.tree_depth(n)})
                except Exception:
                    blen.append({'kind': 'blen', 'k': k, 'd': d, 'bl': -1, 'td': -1})
        recs = col.records()
        sha_bad = [r for r in recs if r['kind'] == 'sha']
        recs = [r for r in recs if r['kind'] != 'sha'] + blen
        res, failures = validate_traces(sc, 'MerkleResTrace', 'MerkleResTrace.cfg', recs, workers=16)
        out.add(traces_validated_against_impl=len(traces), evaluations=col.evals + len(blen),
                distinct_answers=len(recs), trace_states=res.distinct)
        seen = set()
        for f in sorted(failures, key=lambda f: f['tid']):
            if f['tid'] in seen:
                continue
            seen.add(f['tid'])
            r = recs[f['tid'] - 1]
            if len(out.violations) < 5:
                desc = {k: v for k, v in r.items() if k not in ('branch', 'root')}
                out.violation(f"{f['clause']} fails for real answer {desc}", {'kind': 'merkle', 'record': r})
        for r in sha_bad[:3]:
            out.violation(f'double-SHA256 proof does not verify: n={r["n"]} i={r["i"]} after {r["where"]}',
                          {'kind': 'merkle-sha', 'record': r})
        # implementation-level conformance
        sc.write('MI.cfg', f'CONSTANT N = {N}\nSPECIFICATION Spec\nINVARIANT NotStuck\nCHECK_DEADLOCK FALSE\n')
        res2, drift = validate_traces(sc, 'MerkleImplTrace', 'MI.cfg',
                                      [{'tid': t['tid'], 'steps': t['steps']} for t in traces], name='impl.json')
        dt = sorted({d['tid'] for d in drift})
        out.add(impl_conformance={'accepted': len(traces) - len(dt), 'drifted': len(dt)})
        for tid in dt[:3]:
            out.drift.append(f'MerkleCache state deviates from Merkle.tla after {traces[tid - 1]["ops"]}')
        out.sample({'ops': seqs[len(seqs) // 2], 'projection': traces[len(seqs) // 2]['steps'][-1]})
        out.sample({'answer': {k: v for k, v in recs[len(recs) // 3].items()}})
        out.sample(blen[90])
    out.add(exhaustive=True, harness_side=['power-of-two boundaries are generated by the harness as 2^k+d because '
                                           'TLC integers are 32-bit; TLC checks the reported lengths against k,d'])
    out.assumptions += ['TLC', 'structural hash is injective (terms are parsed back)',
                        'static source; concurrent source changes are covered by C11']
    return out.finish()


def replay(doc):
    r = doc['replay']
    print(r)
    return 1
