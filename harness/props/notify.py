'''C20 - Notifications are issued only at heights both sources agree on, and drop nothing.

1. TLC checks Notify.tla (class transcription + environment) exhaustively.
2. TLC exports every boundary-call history of the environment model up to a bound; each is
   replayed on the real electrumx.server.controller.Notifications.
3. The recorded calls + notifications are validated by TLC against NotifyPropTrace.tla (the
   property-level monitor: decisive) and NotifyImplTrace.tla (class dictionaries: drift).
4. Additional random call sequences (any order: the monitor was model-checked to be
   satisfiable by a correct class under arbitrary call orders) are replayed the same way.
'''
import asyncio
import random

from harness.evidence import Outcome
from harness.tlc import Scratch, run_tlc, model_check, validate_traces, MachineryError

ENV_ACTIONS = ('DaemonMove', 'BPPoll', 'BPAdvance', 'BPMidFlush', 'BPCuFlush', 'BPCuNotify',
               'BPReorgStart', 'BPBackup', 'MPCapture', 'MPDeliver', 'Start')


def cfg_text(maxh, maxcalls, *, record=False, free=False, variant='fixed', invariants=True):
    lines = [f'CONSTANTS MaxH = {maxh} MaxCalls = {maxcalls} Variant = "{variant}" '
             f'Record = {"TRUE" if record else "FALSE"} FreeEnv = {"TRUE" if free else "FALSE"}',
             'SPECIFICATION Spec', 'CHECK_DEADLOCK FALSE']
    if invariants:
        lines += ['INVARIANT OnlyAgreed', 'INVARIANT NothingLost', 'INVARIANT TypeOK']
    return '\n'.join(lines) + '\n'


async def replay_calls(calls):
    '''Run one boundary-call history on the real class; returns recorded steps.'''
    from electrumx.server.controller import Notifications
    n = Notifications()
    notes = []

    async def notify(height, touched):
        notes.append((height, sorted(touched)))

    def view():
        return {'tmp': sorted([h, sorted(t)] for h, t in n._touched_mp.items()),
                'tbp': sorted([h, sorted(t)] for h, t in n._touched_bp.items()),
                'highest': n._highest_block}

    steps = []
    for c in calls:
        del notes[:]
        toks = [c['tok']] if c['tok'] else []
        if c['ev'] == 'start':
            await n.start(c['h'], notify)
        elif c['ev'] == 'mp':
            await n.on_mempool(set(toks), c['h'])
        else:
            await n.on_block(set(toks), c['h'])
        step = {'ev': c['ev'], 'h': c['h'], 'toks': toks, 'nh': -1, 'ntoks': []}
        if c['ev'] != 'start' and notes:
            if len(notes) > 1:
                step['nh'], step['ntoks'] = notes[-1][0], sorted(set(sum((t for _, t in notes), [])))
                step['multi'] = True
            else:
                step['nh'], step['ntoks'] = notes[0]
        try:
            step.update(view())
        except AttributeError:
            step.update({'tmp': [], 'tbp': [], 'highest': -2})
        steps.append(step)
    return steps


def random_calls(rng, n, maxh):
    calls = []
    started = False
    for k in range(1, n + 1):
        r = rng.random()
        if not started and r < 0.35:
            calls.append({'ev': 'start', 'h': rng.randint(0, maxh), 'tok': 0})
            started = True
        elif r < 0.65:
            calls.append({'ev': 'mp', 'h': rng.randint(0, maxh), 'tok': k})
        else:
            calls.append({'ev': 'blk', 'h': rng.randint(0, maxh), 'tok': k})
    return calls


def check(pid, tier, seed):
    out = Outcome(pid, tier, seed, 'model_checking')
    quick = tier == 'quick'
    with Scratch('c20') as sc:
        # 1. exhaustive model check of the implementation-shaped spec against the property
        configs = [(2, 5, False)] if quick else [(3, 5, False), (2, 6, False)]
        configs.append((3, 5, True) if quick else (3, 6, True))
        for maxh, maxcalls, free in configs:
            name = f'N_{maxh}_{maxcalls}_{int(free)}.cfg'
            sc.write(name, cfg_text(maxh, maxcalls, free=free))
            res = model_check(sc, 'Notify', name, expect_actions=() if free else ENV_ACTIONS,
                              timeout=3000)
            if res.violated:
                # design-level counterexample: exported below like any behaviour, the verdict
                # comes from the real class; remember it so that it is certainly replayed
                out.notes.append(f'TLC: {res.violated} violated by the model ({name}); replaying on the code')
            elif not res.no_error:
                raise MachineryError(f'TLC did not finish {name}:\n{res.out[-2000:]}')
            out.add(states=res.distinct, transitions=res.generated)
            out.notes.append(f'Notify.tla MaxH={maxh} MaxCalls={maxcalls} FreeEnv={free}: '
                             f'{res.distinct} distinct states, depth {res.depth}')

        # 2. export all call histories of the environment model
        exports = [(2, 4)] if quick else [(2, 5), (3, 4)]
        histories = {}
        for maxh, maxcalls in exports:
            name = f'X_{maxh}_{maxcalls}.cfg'
            sc.write(name, cfg_text(maxh, maxcalls, record=True, invariants=False))
            res = run_tlc(sc, 'Notify', name, timeout=3000)
            if not res.no_error:
                raise MachineryError(f'export run failed:\n{res.out[-2000:]}')
            for h in res.printed('BEH'):
                histories[tuple((c['ev'], c['h'], c['tok']) for c in h)] = h
        if len(histories) < 100:
            raise MachineryError(f'only {len(histories)} behaviours exported')
        batch = [('model', h) for h in histories.values()]

        # 2b. simulation of the environment for longer histories (thorough)
        if not quick:
            name = 'S.cfg'
            sc.write(name, cfg_text(4, 9, record=True, invariants=False))
            res = run_tlc(sc, 'Notify', name, simulate='num=20000', depth=80, seed=seed or 1,
                          workers=8, timeout=1200)
            sims = {tuple((c['ev'], c['h'], c['tok']) for c in h): h for h in res.printed('BEH')}
            batch += [('sim', h) for h in sims.values()]

        # 3. random call orders
        rng = random.Random(seed)
        for _ in range(2000 if quick else 30000):
            batch.append(('random', random_calls(rng, rng.randint(3, 9), 4)))

        loop = asyncio.new_event_loop()
        traces = []
        for k, (src, calls) in enumerate(batch):
            steps = loop.run_until_complete(replay_calls(calls))
            traces.append({'tid': k + 1, 'src': src, 'steps': steps})
        loop.close()
        out.add(traces_validated_against_impl=len(traces), behaviours_from_model=len(histories),
                random_sequences=len(batch) - len(histories))

        # 4. validation: property-level monitor (decisive)
        res, failures = validate_traces(sc, 'NotifyPropTrace', 'NotifyPropTrace.cfg', traces)
        out.add(trace_states=res.distinct)
        seen = set()
        for f in failures:
            if f['tid'] in seen:
                continue
            seen.add(f['tid'])
            t = traces[f['tid'] - 1]
            upto = t['steps'][:max(f['l'] - 1, 1)]
            out.violation(f"{f['clause']} fails on the real Notifications after call {f['l'] - 1} of "
                          f"{[(s['ev'], s['h'], s['toks']) for s in upto]}; notified "
                          f"{[(s['nh'], s['ntoks']) for s in upto]}",
                          {'kind': 'notify', 'calls': [{'ev': s['ev'], 'h': s['h'], 'tok': (s['toks'] or [0])[0]}
                                                       for s in t['steps']], 'clause': f['clause']})
            if len(out.violations) >= 5:
                break
        # implementation-level conformance (drift only)
        res2, drift = validate_traces(sc, 'NotifyImplTrace', 'NotifyImplTrace.cfg', traces, name='t2.json')
        dt = sorted({d['tid'] for d in drift})
        out.add(impl_conformance={'accepted': len(traces) - len(dt), 'drifted': len(dt)})
        for tid in dt[:3]:
            out.drift.append(f'Notifications state deviates from NotifyClass.tla on trace {tid}: '
                             f'{[(s["ev"], s["h"]) for s in traces[tid - 1]["steps"]]}')
        # (ii) the environment model from the other side: boundary call sequences recorded in full-stack runs
        # (real BlockProcessor, MemPool, SessionManager start-up) must be behaviours of the model of the callers;
        # TLC infers the silent block-processor / daemon / refresh steps between the logged calls
        if not quick:
            from harness.clientrun import ClientRun
            from harness.props.client import random_schedule
            import logging
            logging.disable(logging.CRITICAL)
            btraces = []
            for k in range(2):
                r = ClientRun({'kind': 'random', 'ops': random_schedule(random.Random(seed * 10 + k), 40)})
                r.run()
                b = [e for e in r.boundary if e['ev'] in ('mp', 'blk', 'start')][:24]
                base = min(e['h'] for e in b)
                btraces.append([{'ev': e['ev'], 'h': e['h'] - base} for e in b])
            maxh = max(e['h'] for t in btraces for e in t)
            sc.write('E.cfg', f'CONSTANTS MaxH = {maxh + 1} MaxCalls = 40 Variant = "fixed" Record = FALSE FreeEnv = FALSE\n'
                     'SPECIFICATION TSpec\nINVARIANT NotConsumed\nCHECK_DEADLOCK FALSE\n')
            try:
                res3, consumed = validate_traces(sc, 'NotifyEnvTrace', 'E.cfg', btraces, workers=12, timeout=2400, name='env.json')
                ok = sorted({f['tid'] for f in consumed})
                out.add(env_traces_accepted=len(ok), env_traces=len(btraces))
                if len(ok) != len(btraces):
                    raise MachineryError(f'environment-model defect: boundary call sequences {set(range(1, len(btraces) + 1)) - set(ok)} '
                                         f'recorded on the full stack are not behaviours of the callers modelled in Notify.tla: {btraces}')
            except MachineryError as e:
                if 'timed out' in str(e):
                    out.notes.append('environment trace validation did not finish within its time limit (not a verdict)')
                else:
                    raise
        for t in traces[:2] + traces[-1:]:
            out.sample({'src': t['src'], 'calls': [(s['ev'], s['h'], s['toks']) for s in t['steps']],
                        'notifications': [(s['nh'], s['ntoks']) for s in t['steps']]})
    out.add(exhaustive=True)
    out.assumptions += ['TLC', 'the environment model in Notify.tla over-approximates the callers '
                        '(validated against full-stack boundary recordings by the C07 check)']
    return out.finish()


def replay(doc):
    r = doc['replay']
    loop = asyncio.new_event_loop()
    steps = loop.run_until_complete(replay_calls(r['calls']))
    loop.close()
    with Scratch('c20r') as sc:
        _res, failures = validate_traces(sc, 'NotifyPropTrace', 'NotifyPropTrace.cfg',
                                         [{'tid': 1, 'steps': steps}], workers=1)
    for s in steps:
        print(s)
    if failures:
        print(f"VIOLATION property={doc['property']} replay=(this file) clause={failures[0]['clause']}")
        return 1
    print('replay: property holds on this history')
    return 0
