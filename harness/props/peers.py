'''C19 - only verified, public, recently good peers are advertised, spread over networks.

Life of a peer (PeerLife.tla): import -> monitor -> connection attempts -> verification (bucket rule, version, height,
header, genesis, own host listed, peers list) -> good / bad / backed off / forgotten, with gossip adding peers.  TLC checks
the model (OnlyVerified, GoodStaysAdvertised, TriesBounded; the variant that does not mark failed peers bad must violate
OnlyVerified; the bucket race the source admits to must be reachable), exports environment scripts (what each remote end does
on each connection, what it gossips); the real PeerManager.discover_peers runs on the virtual-time loop against those
scripted remote ends, and every answer of on_peers_subscribe - also at the instants around staleness and in the middle of
attempts - is validated by TLC: PeerLifePropTrace.tla (decisive, knows only what the remote ends did) and PeerLifeTrace.tla
(implementation level: try counts, bad flags, last_good, forgetting and the exact wake-up / back-off times; drift only).

TLC: Peers.tla enumerates every population of catalogue peers (public IPv4 sharing a /16,
IPv6 sharing a /56 across /64s, private, carrier-grade NAT, hostname, localhost, onion) in
every state (good / stale / never / good-but-bad), with extra onion peers, own identity
recent or stale, tor or clearnet requester.  Each population is built from real Peer objects
inside a real PeerManager; on_peers_subscribe is called repeatedly (it shuffles) and every
returned list is validated by TLC (PeersTrace.tla) with buckets computed by the harness from
the integer addresses.  Second clause: Peer.peers_from_features over host x port shapes
(enumerated here by the harness from shape tables; expectations by shape), validated by TLC.
'''
import ipaddress
import itertools
import json
import os
import random
import sys
import time

from harness.evidence import Outcome
from harness.tlc import Scratch, run_tlc, model_check, validate_traces, MachineryError

ADDR = {
    'v4a1': '8.8.1.1', 'v4a2': '8.8.2.2', 'v4a3': '8.8.200.3', 'v4b': '9.9.9.9', 'v4priv': '192.168.1.7',
    'v4cgnat': '100.64.3.7', 'v6c1': '2001:db9:1:aa00::1', 'v6c2': '2001:db9:1:aa01::1', 'v6c3': '2001:db9:1:aaff::1',
    'v6d': '2001:db9:2:bb00::1', 'host': 'electrum.example.org', 'localhost': 'localhost',
    'onion1': 'abcdefghijklmnop.onion', 'onion2': 'qrstuvwxyz234567.onion',
}
RESOLVED = {'host': '11.22.33.44'}


def bucket_of(ip_text):
    '''/16 for IPv4, /56 for IPv6, from the integer address (independent of peer.py).'''
    try:
        ip = ipaddress.ip_address(ip_text)
    except ValueError:
        return 'name:' + ip_text
    n = int(ip)
    if ip.version == 4:
        return f'v4:{n >> 16}'
    return f'v6:{n >> 72}'


def features_for(host, tcp=50001):
    return {'hosts': {host: {'tcp_port': tcp, 'ssl_port': 50002}}, 'genesis_hash': '00', 'protocol_min': '1.4',
            'protocol_max': '1.4', 'server_version': 'ElectrumX 1.20', 'pruning': None}


def build_manager():
    os.environ.update(DB_DIRECTORY='/dev/shm', DAEMON_URL='http://u:p@localhost:1/', COIN='BitcoinSV', NET='regtest',
                      PEER_DISCOVERY='off', SERVICES='', REPORT_SERVICES='tcp://my.example.net:50001')
    from electrumx.server.env import Env
    from electrumx.server.peers import PeerManager
    env = Env()

    class FakeDB:
        pass
    return PeerManager(env, FakeDB()), env


def run_population(pm, popdoc, catalogue, calls, rng):
    from electrumx.lib.peer import Peer
    from electrumx.server.peers import STALE_SECS
    now = time.time()
    good, stale = now - 60, now - STALE_SECS - 3600
    peers = []
    meta = {}
    for k, st in enumerate(popdoc['pop']):
        if st == 'absent':
            continue
        kind = catalogue[k]
        host = ADDR[kind]
        ip_addr = RESOLVED.get(kind, host if kind not in ('localhost',) and not host.endswith('.onion') else None)
        p = Peer(host, features_for(host), 'peer', ip_addr=ip_addr)
        p.last_good = {'good': good, 'goodbad': good, 'stale': stale, 'never': 0}[st]
        p.bad = st == 'goodbad'
        peers.append(p)
        meta[host] = [kind, 'good' if st in ('good', 'goodbad') else st, int(p.bad)]
    for k in range(popdoc['extra']):
        host = ('x%015d' % k).replace('0', 'a') + '.onion'
        p = Peer(host, features_for(host), 'peer')
        p.last_good = good
        peers.append(p)
        meta[host] = ['extra_onion', 'good', 0]
    rng.shuffle(peers)
    pm.peers = set(peers)
    for me in pm.myselves:
        me.last_good = good if popdoc['own'] == 'good' else stale
    own_hosts = {me.host for me in pm.myselves}
    recs = []
    for _ in range(calls):
        res = pm.on_peers_subscribe(popdoc['tor'])
        out = []
        for ip, host, details in res:
            if host in own_hosts:
                out.append([host, popdoc['own'], 0, 1, 'own', 0, 1])
                continue
            kind, st, bad = meta.get(host, ['unknown', 'never', 1])
            onion = int(host.endswith('.onion'))
            truly_public = kind in ('v4a1', 'v4a2', 'v4a3', 'v4b', 'v6c1', 'v6c2', 'v6c3', 'v6d', 'host', 'onion1', 'onion2', 'extra_onion')
            addr = RESOLVED.get(kind, host)
            out.append([host, st, bad, int(truly_public), 'onion' if onion else bucket_of(addr), onion, 0])
        recs.append({'kind': 'subscribe', 'tor': popdoc['tor'], 'result': sorted(out)})
    return recs


# ---- second clause: feature dictionaries
HOSTS = [  # (host, expected public)
    ('electrum.example.org', 1), ('a-b.c0.example', 1), ('localhost', 0), ('8.8.8.8', 1), ('1.2.3.4', 1), ('10.1.2.3', 0),
    ('192.168.0.1', 0), ('172.16.5.5', 0), ('127.0.0.1', 0), ('100.64.3.7', 0), ('100.127.255.254', 0), ('224.0.0.1', 0),
    ('0.0.0.0', 0), ('169.254.1.1', 0), ('255.255.255.255', 0), ('2001:4860:4860::8888', 1), ('fc00::1', 0), ('fe80::1', 0),
    ('::1', 0), ('::', 0), ('ff02::1', 0), ('-bad-.example', 0), ('a..b', 0), ('', 0),
    ('x' * 64 + '.example', 0), ('exa mple.org', 0), ('abcdefghijklmnop.onion', 1), ('bücher.example', 0),
]
PORTS = [  # (json value, expected port or 0 for absent)
    (50001, 50001), (1, 1), (65535, 65535), (0, 0), (-1, 0), (65536, 0), (10 ** 12, 0), (True, 0), (False, 0), (1.5, 0),
    ('50001', 50001), ('abc', 0), ('', 0), (None, 0), ([50001], 0), ({'p': 1}, 0), ('65536', 0), ('-5', 0),
]


def feature_records(rng, quick):
    from electrumx.lib.peer import Peer
    recs = []
    combos = list(itertools.product(HOSTS, PORTS, PORTS))
    if quick:
        rng.shuffle(combos)
        # every host with every tcp port, ssl port rotating; plus a sample of full pairs
        combos = [(h, p, PORTS[(i * 7) % len(PORTS)]) for i, (h, p) in enumerate(itertools.product(HOSTS, PORTS))] + combos[:1500]
    for (host, pub), (tcp, tcp_exp), (ssl, ssl_exp) in combos:
        feats = {'hosts': {host: {'tcp_port': tcp, 'ssl_port': ssl}}, 'genesis_hash': '00', 'protocol_min': '1.4',
                 'protocol_max': '1.4', 'server_version': 'x', 'pruning': tcp}
        try:
            peers = Peer.peers_from_features(feats, 'src')
        except Exception as e:
            recs.append({'kind': 'feature', 'public': -1, 'public_expect': pub, 'tcp': -1, 'ssl': -1, 'tcp_int': 0, 'ssl_int': 0,
                         'tcp_expect': tcp_exp, 'ssl_expect': ssl_exp, 'host': host, 'tcpv': repr(tcp), 'sslv': repr(ssl), 'exc': repr(e)[:80]})
            continue
        for p in peers:
            t, s = p.tcp_port, p.ssl_port
            recs.append({'kind': 'feature', 'public': int(bool(p.is_public)), 'public_expect': pub,
                         'tcp': 0 if t is None else (t if type(t) is int else -1), 'ssl': 0 if s is None else (s if type(s) is int else -1),
                         'tcp_int': int(t is None or type(t) is int), 'ssl_int': int(s is None or type(s) is int),
                         'tcp_expect': tcp_exp, 'ssl_expect': ssl_exp, 'host': host, 'tcpv': repr(tcp), 'sslv': repr(ssl),
                         'name': p.real_name()[:60]})
    return recs


LIFE_OUT = '{"connfail", "rpcerr", "ok", "badgenesis", "badheight", "badheader", "notlisted", "badtype"}'


def life_cfg(known0, universe, gossip, maxconns, outcomes, variant='code', export=False, invs=('OnlyVerified', 'GoodStaysAdvertised',
                                                                                                 'TriesBounded', 'TypeOK')):
    return (f'CONSTANTS Known0 = {known0} Universe = {universe} GossipSets = {gossip} MaxConns = {maxconns} Outcomes = {outcomes} '
            f'Variant = "{variant}" Export = {"TRUE" if export else "FALSE"}\nSPECIFICATION Spec\nVIEW View\nCHECK_DEADLOCK FALSE\n'
            + ''.join(f'INVARIANT {i}\n' for i in invs))


def _life(script):
    import logging
    logging.disable(logging.CRITICAL)
    sys.stderr = open(os.devnull, 'w')
    from harness.peerlife import LifeRun
    try:
        r = LifeRun(script)
        d = r.run()
        return {'known0': d['known0'], 'steps': d['steps'], 'script': script, 'errors': r.errors}
    except Exception:
        import traceback
        return {'error': traceback.format_exc()[-1500:], 'script': script}


def life_part(out, sc, quick, seed, rng):
    from concurrent.futures import ProcessPoolExecutor
    from harness.peerlife import random_script, script_from_hist
    # 1. the model
    cfgs = [('{0, 1}', '{0, 1, 2, 3}', '{{}, {2, 3}}', 6, LIFE_OUT)] if quick else \
        [('{0, 1}', '{0, 1, 2, 3}', '{{}, {2, 3}}', 7, LIFE_OUT), ('{1, 2}', '{1, 2, 3, 4}', '{{}, {3, 4}}', 14, '{"connfail", "ok", "badheader"}')]
    for k0, uni, gos, mc, outs in cfgs:
        sc.write('L.cfg', life_cfg(k0, uni, gos, mc, outs))
        res = model_check(sc, 'PeerLife', 'L.cfg', timeout=3000 if quick else 900, soft=not quick,
                          expect_actions=('Conn', 'Note', 'Done') if quick else ())
        if res.violated:
            out.notes.append(f'TLC: PeerLife.tla violates {res.violated}; verdict is taken from the real runs')
        elif res.timed_out:
            out.notes.append(f'PeerLife.tla {k0} {uni} MaxConns={mc}: NOT exhausted within 900 s ({res.distinct} distinct states, '
                             f'breadth-first, no violation)')
            out.coverage['peer_life_exhaustive'] = False
        elif not res.no_error:
            raise MachineryError(res.out[-1500:])
        out.add(states=res.distinct, transitions=res.generated)
    sc.write('LV.cfg', life_cfg('{1}', '{1, 2}', '{{}}', 6, '{"ok", "badgenesis", "connfail"}', variant='nomark', invs=('OnlyVerified',)))
    res = run_tlc(sc, 'PeerLife', 'LV.cfg', timeout=900)
    if 'OnlyVerified' not in res.violated:
        raise MachineryError('PeerLife.tla with Variant="nomark" does not violate OnlyVerified: the model lost its teeth')
    sc.write('LB.cfg', life_cfg('{1, 2}', '{1, 2}', '{{}}', 4, '{"ok"}', invs=('BucketExclusive',)))
    res = run_tlc(sc, 'PeerLife', 'LB.cfg', timeout=900)
    if 'BucketExclusive' not in res.violated:
        raise MachineryError('PeerLife.tla does not reach the bucket race the source documents (FIXME in _verify_peer)')
    out.notes.append('PeerLife.tla: Variant="nomark" violates OnlyVerified as expected; the documented race of two peers of one '
                     'IP address verifying at once (BucketExclusive) is reachable, as the FIXME in peers.py says')
    # 2. environment scripts exported by TLC + random ones
    scripts = []
    for k0, uni, gos, mc, outs in ([('{0, 1}', '{0, 1, 2, 3}', '{{}, {2, 3}}', 6, LIFE_OUT),
                                    ('{1, 2}', '{1, 2, 3, 4}', '{{}, {3, 4}}', 9, '{"connfail", "ok", "badheader", "rpcerr"}')]):
        sc.write('LX.cfg', life_cfg(k0, uni, gos, mc, outs, export=True, invs=()))
        res = run_tlc(sc, 'PeerLife', 'LX.cfg', simulate=f'num={3000 if quick else 30000}', depth=40, seed=seed or 5, workers=8, timeout=900)
        known0 = [int(x) for x in k0.strip('{}').split(',')]
        for h in res.printed('LIFE'):
            scripts.append(script_from_hist(h, known0, seed=len(scripts)))
    uniq = list({json.dumps(s_, sort_keys=True): s_ for s_ in scripts}.values())
    rng.shuffle(uniq)
    uniq = uniq[:(300 if quick else 4000)]
    if len(uniq) < 50:
        raise MachineryError(f'only {len(uniq)} peer-life scripts exported')
    rnd = [random_script(rng) for _ in range(300 if quick else 4000)]
    with ProcessPoolExecutor(max_workers=14) as ex:
        runs = list(ex.map(_life, uniq + rnd, chunksize=8))
    errors = [t for t in runs if 'error' in t]
    if errors:
        raise MachineryError(f'{len(errors)} peer-life executions failed in the harness, first:\n{errors[0]["error"]}\n{errors[0]["script"]}')
    traces = [{'tid': k + 1, 'known0': t['known0'], 'steps': t['steps']} for k, t in enumerate(runs)]
    res, failures = validate_traces(sc, 'PeerLifePropTrace', 'PeerLifePropTrace.cfg', traces, workers=16, timeout=3000, name='life.json')
    out.add(peer_life_runs=len(traces), peer_life_scripts_from_model=len(uniq), trace_states=res.distinct,
            peer_life_events=sum(len(t['steps']) for t in traces),
            peer_life_answers=sum(1 for t in traces for s_ in t['steps'] if s_['ev'] == 'query'))
    seen = set()
    for f in sorted(failures, key=lambda f: (f['tid'], f['l'])):
        if f['tid'] in seen:
            continue
        seen.add(f['tid'])
        t = runs[f['tid'] - 1]
        if len(out.violations) < 4:
            upto = t['steps'][max(0, f['l'] - 8):f['l'] - 1]
            out.violation(f"{f['clause']} fails on the real PeerManager at recorded step {f['l'] - 1}: ... {upto}",
                          {'kind': 'peerlife', 'script': t['script'], 'clause': f['clause']})
    for t in runs:
        for e in t['errors'][:1]:
            if len(out.violations) < 6:
                out.violation(f'PeerManager failed: {e}', {'kind': 'peerlife', 'script': t['script'], 'clause': 'error'})
    res2, drift = validate_traces(sc, 'PeerLifeTrace', 'PeerLifeTrace.cfg', traces, workers=16, timeout=3000, name='life2.json')
    dt = sorted({d['tid'] for d in drift})
    out.add(peer_life_impl_conformance={'accepted': len(traces) - len(dt), 'drifted': len(dt)})
    for d in sorted(drift, key=lambda d: d['tid'])[:3]:
        t = runs[d['tid'] - 1]
        out.drift.append(f"PeerManager deviates from PeerLife.tla ({d['clause']}) at step {d['l']}: {t['steps'][max(0, d['l'] - 3):d['l']]} "
                         f"script {json.dumps(t['script'])[:300]}")
    out.sample({'peer_life': runs[0]['steps'][:12]})


def check(pid, tier, seed):
    import logging
    logging.disable(logging.CRITICAL)
    out = Outcome(pid, tier, seed, 'model_checking')
    quick = tier == 'quick'
    rng = random.Random(seed)
    with Scratch('c19') as sc:
        if quick:
            consts = 'MaxPresent = 3 Use = {1, 2, 3, 5, 6, 7, 8, 9, 11, 12, 13} PresentStates = {"good", "stale", "goodbad"}'
        else:
            consts = 'MaxPresent = 3 Use = {1, 2, 3, 4, 5, 6, 7, 8, 9, 10, 11, 12, 13, 14} PresentStates = {"good", "stale", "never", "goodbad"}'
        sc.write('P.cfg', f'CONSTANTS {consts} Export = TRUE\nSPECIFICATION Spec\nINVARIANT OnlyRecentGoodPublic\n'
                 'INVARIANT TwoPerBucket\nCHECK_DEADLOCK FALSE\n')
        res = run_tlc(sc, 'Peers', 'P.cfg', workers=16, timeout=3400)
        if res.violated:
            out.notes.append(f'TLC: Peers.tla violates {res.violated}; verdict is taken from the real runs')
        elif not res.no_error:
            raise MachineryError(res.out[-1500:])
        out.add(states=res.distinct, transitions=res.generated)
        pops = list({json.dumps(p, sort_keys=True): p for p in res.printed('POP')}.values())
        if len(pops) < 1000:
            raise MachineryError(f'only {len(pops)} populations exported')
        catalogue = ['v4a1', 'v4a2', 'v4a3', 'v4b', 'v4priv', 'v4cgnat', 'v6c1', 'v6c2', 'v6c3', 'v6d', 'host', 'localhost',
                     'onion1', 'onion2']
        for p in pops:
            p['pop'] = [p['pop'][k] for k in range(len(catalogue))] if isinstance(p['pop'], list) else \
                [p['pop'][str(k + 1)] for k in range(len(catalogue))]
        rng.shuffle(pops)
        # populations with something to select first
        pops.sort(key=lambda p: -(sum(1 for s in p['pop'] if s == 'good') * 3 + sum(1 for s in p['pop'] if s != 'absent') + (p['extra'] > 0)))
        take = pops[:(6000 if quick else 60000)]
        pm, env = build_manager()
        recs = []
        for p in take:
            recs += run_population(pm, p, catalogue, 3 if quick else 10, rng)
        frecs = feature_records(rng, quick)
        keys_s = ('kind', 'tor', 'result')
        keys_f = ('kind', 'public', 'public_expect', 'tcp', 'ssl', 'tcp_int', 'ssl_int', 'tcp_expect', 'ssl_expect')
        slim = [{k: r[k] for k in keys_s} for r in recs] + [{k: r[k] for k in keys_f} for r in frecs]
        allrecs = recs + frecs
        res, failures = validate_traces(sc, 'PeersTrace', 'PeersTrace.cfg', slim, workers=16, timeout=3000)
        out.add(traces_validated_against_impl=len(slim), populations=len(take), subscribe_calls=len(recs),
                feature_dictionaries=len(frecs), trace_states=res.distinct)
        seen = set()
        for f in sorted(failures, key=lambda f: f['tid']):
            r = allrecs[f['tid'] - 1]
            key = (f['clause'], json.dumps(r, sort_keys=True)[:200])
            if key in seen:
                continue
            seen.add(key)
            if len(out.violations) < 6:
                out.violation(f"{f['clause']}: {json.dumps(r)[:500]}", {'kind': 'peers', 'record': r})
        out.sample(recs[0])
        out.sample(frecs[5])
        life_part(out, sc, quick, seed, rng)
    out.add(harness_side=['the feature-dictionary clause is enumerated from shape tables in the harness (host syntax and address classes '
                          'cannot be decided inside TLA+); TLC checks the recorded classification against the expectation of the shape'])
    out.assumptions += ['TLC', 'buckets (/16, /56) are computed by the harness from the integer addresses']
    return out.finish()


def replay(doc):
    r = doc['replay']
    if r.get('kind') == 'peerlife':
        t = _life(r['script'])
        if 'error' in t:
            print(t['error'])
            return 2
        for s_ in t['steps']:
            print(s_)
        with Scratch('c19r') as sc:
            _res, failures = validate_traces(sc, 'PeerLifePropTrace', 'PeerLifePropTrace.cfg',
                                             [{'tid': 1, 'known0': t['known0'], 'steps': t['steps']}], workers=2)
        if failures or t['errors']:
            print(f"VIOLATION property={doc['property']} replay=(this file) clause={failures[0]['clause'] if failures else t['errors'][0]}")
            return 1
        print('replay: property holds on this run')
        return 0
    print(json.dumps(r)[:1500])
    return 1
