'''C11 - every merkle proof the server hands out verifies against the current chain.

1. TLC: MerkleRace.tla (MerkleCache.branch_and_root with its awaits as separate steps, reorgs
   and other requests in between); the variant of the code before fix c0d55d3 must violate it.
2. Behaviours exported by TLC are replayed on the real MerkleCache (structural hash, source
   function whose every call is executed and delivered under the driver's control); each
   answer and the answers to all (length, index) at the final quiescence are validated by TLC
   (MerkleResTrace.tla).
3. Full stack (harness-side, byte level): chains with blocks of 1..333 transactions, natural and
   same-height reorgs, a header-proof request in flight across a reorg; at quiescence every
   kind of proof request is issued through real sessions and folded with double SHA-256 by the
   harness against the header's merkle root / the root of all current block hashes; requests
   outside the chain must be refused.
'''
import asyncio
import hashlib
import json
import os
import random
import sys
from concurrent.futures import ProcessPoolExecutor

from harness.evidence import Outcome
from harness.tlc import Scratch, run_tlc, model_check, validate_traces, MachineryError
from harness.props.merkle import shash, leaf, term, Collector


def cfg(n, initlen, startlen, reqs, reorgs, variant, export, truncfirst=False):
    return (f'CONSTANTS N = {n} InitLen = {initlen} StartLen = {startlen} MaxReqs = {reqs} MaxReorgs = {reorgs} '
            f'Variant = "{variant}" Export = {"TRUE" if export else "FALSE"} TruncFirst = {"TRUE" if truncfirst else "FALSE"}\nSPECIFICATION Spec\nVIEW View\nCHECK_DEADLOCK FALSE\n'
            + ('' if export else 'INVARIANT ProofsVerify\nINVARIANT NoPoisoning\n'))


# ------------------------------------------------------------------------------------------
# cache-level replay
class Call:
    def __init__(self, loop, kind, start, count):
        self.kind, self.start, self.count = kind, start, count
        self.exec = loop.create_future()
        self.deliver = loop.create_future()
        self.snapshot = None


async def replay_race(evs, N, initlen, startlen):
    import inspect
    from electrumx.lib.merkle import Merkle, MerkleCache
    loop = asyncio.get_event_loop()
    ids = list(range(1, N + 1))
    st = {'slen': startlen, 'gen': 0}
    calls = {}          # request id -> list of pending Call
    current = {'rid': 0}

    class DBError(Exception):
        pass

    async def source(start, count):
        kind = 'other'
        for fr in inspect.stack()[1:4]:
            if fr.function in ('_extend_to', '_level_for', 'branch_and_root', 'initialize'):
                kind = fr.function
                break
        rid = current['rid']
        if rid == 0:                      # initialisation / synchronous queries: no interleaving
            if start + count > st['slen']:
                raise DBError('short read')
            return [leaf(x) for x in ids[start:start + count]]
        c = Call(loop, kind, start, count)
        calls.setdefault(rid, []).append(c)
        await c.exec
        # the read instant
        if start + count > st['slen']:
            c.snapshot = DBError('short read')
        else:
            c.snapshot = [leaf(x) for x in ids[start:start + count]]
        await c.deliver
        if isinstance(c.snapshot, Exception):
            raise c.snapshot
        return c.snapshot

    cache = MerkleCache(Merkle(hash_func=shash), source)
    await cache.initialize(initlen)
    tasks = {}
    clean = {}
    results = []

    async def settle():
        for _ in range(5):
            await asyncio.sleep(0)

    def pending(rid):
        return [c for c in calls.get(rid, []) if not c.deliver.done()]

    async def run_req(rid, length, index):
        current['rid'] = rid
        try:
            return await cache.branch_and_root(length, index)
        finally:
            pass

    def make(rid, length, index):
        # the coroutine must see its own request id whenever it calls the source: wrap the call
        async def body():
            return await cache.branch_and_root(length, index)
        return body

    for e in evs:
        k = e['e']
        if k == 'reorg':
            n = e['n']
            for h in range(st['slen'] - 1, n - 1, -1):
                cache.truncate(h)              # backup_fs after each undone block: truncate(height + 1)
            st['gen'] += 1
            for j in range(n, N):
                ids[j] = j + 1 + 100 * st['gen']
            st['slen'] = n
            for rid in list(tasks):
                if not tasks[rid].done():
                    clean[rid] = False
        elif k == 'grow':
            st['slen'] += 1
        elif k == 'begin':
            rid = e['id']
            current['rid'] = rid
            tasks[rid] = loop.create_task(cache.branch_and_root(e['length'], e['index']))
            clean[rid] = True
            tasks[rid].req = (e['length'], e['index'])

            def completed(t, length=e['length']):
                # the answer is judged against the hashes as they were when it was given, not when the schedule looks at it
                t.src_at_done = list(ids[:length])
                t.slen_at_done = st['slen']
            tasks[rid].add_done_callback(completed)
            await settle()
            current['rid'] = 0
        elif k in ('extfetch', 'assign', 'leaffetch', 'finish'):
            rid = e['id']
            current['rid'] = rid
            p = pending(rid)
            if k == 'extfetch':
                if p and p[0].kind == '_extend_to' and not p[0].exec.done():
                    p[0].exec.set_result(None)
            elif k == 'assign':
                if p and p[0].kind == '_extend_to':
                    if not p[0].exec.done():
                        p[0].exec.set_result(None)
                        await settle()
                    p[0].deliver.set_result(None)
            elif k == 'leaffetch':
                # whatever extension work is left first (drift), then the leaf fetch
                for _ in range(6):
                    p = pending(rid)
                    if not p:
                        break
                    c = p[0]
                    if not c.exec.done():
                        c.exec.set_result(None)
                        await settle()
                    c.deliver.set_result(None)
                    await settle()
                    if c.kind == 'branch_and_root':
                        break
            else:
                for _ in range(10):
                    p = pending(rid)
                    if not p or tasks[rid].done():
                        break
                    c = p[0]
                    if not c.exec.done():
                        c.exec.set_result(None)
                        await settle()
                    c.deliver.set_result(None)
                    await settle()
            await settle()
            current['rid'] = 0
            t = tasks.get(rid)
            if k == 'finish' and t is not None and t.done() and not getattr(t, 'seen', False):
                t.seen = True
                length, index = t.req
                try:
                    branch, root = t.result()
                    results.append({'kind': 'cache', 'n': length, 'i': index, 'extra': 0, 'tsc': False, 'ok': True,
                                    'branch': [term(b) for b in branch], 'root': term(root),
                                    'src': getattr(t, 'src_at_done', ids[:length]),
                                    'clean': clean[rid], 'stale': length > getattr(t, 'slen_at_done', st['slen']), 'at': 'finish'})
                except Exception as ex:
                    results.append({'kind': 'failed', 'n': length, 'i': index, 'clean': clean[rid], 'exc': repr(ex)[:80]})
    # everything still in flight finishes
    for rid, t in tasks.items():
        current['rid'] = rid
        for _ in range(12):
            if t.done():
                break
            for c in pending(rid):
                if not c.exec.done():
                    c.exec.set_result(None)
                await settle()
                if not c.deliver.done():
                    c.deliver.set_result(None)
                await settle()
        if not t.done():
            t.cancel()
        else:
            t.exception()
    current['rid'] = 0
    # final quiescence: every (length, index) must be answered with a proof of the current hashes
    for n in range(1, st['slen'] + 1):
        for i in range(n):
            try:
                branch, root = await cache.branch_and_root(n, i)
                results.append({'kind': 'cache', 'n': n, 'i': i, 'extra': 0, 'tsc': False, 'ok': True,
                                'branch': [term(b) for b in branch], 'root': term(root), 'src': ids[:n], 'clean': True,
                                'stale': False, 'at': 'quiescence'})
            except Exception as ex:
                results.append({'kind': 'cache', 'n': n, 'i': i, 'extra': 0, 'tsc': False, 'ok': False, 'branch': [], 'root': [],
                                'src': ids[:n], 'clean': True, 'stale': False, 'at': 'quiescence', 'exc': repr(ex)[:80]})
    return results


def _race(job):
    evs, N, initlen, startlen = job
    loop = asyncio.new_event_loop()
    asyncio.set_event_loop(loop)
    try:
        res = loop.run_until_complete(replay_race(evs, N, initlen, startlen))
        return {'results': res, 'job': {'evs': evs, 'N': N, 'initlen': initlen, 'startlen': startlen}}
    except Exception:
        import traceback
        return {'error': traceback.format_exc()[-1500:], 'job': {'evs': evs}}
    finally:
        loop.close()


# ------------------------------------------------------------------------------------------
# full stack, byte level
def dsha(b):
    return hashlib.sha256(hashlib.sha256(b).digest()).digest()


def fold(h, branch, index):
    for elt in branch:
        e = h if elt == '*' else bytes.fromhex(elt)[::-1]
        h = dsha(e + h) if index & 1 else dsha(h + e)
        index >>= 1
    return h, index


def root_of(hashes):
    hashes = list(hashes)
    while len(hashes) > 1:
        if len(hashes) & 1:
            hashes.append(hashes[-1])
        hashes = [dsha(hashes[k] + hashes[k + 1]) for k in range(0, len(hashes), 2)]
    return hashes[0]


def _stack(job):
    import logging
    logging.disable(logging.CRITICAL)
    sys.stderr = open(os.devnull, 'w')
    from harness.proofrun import run_proofs
    try:
        return run_proofs(job)
    except Exception:
        import traceback
        return {'error': traceback.format_exc()[-1800:], 'job': job}


def check(pid, tier, seed):
    out = Outcome(pid, tier, seed, 'model_checking')
    quick = tier == 'quick'
    rng = random.Random(seed)
    with Scratch('c11') as sc:
        params = (6, 2, 5, 2, 1) if quick else (8, 2, 6, 2, 1)
        sc.write('RM.cfg', cfg(*params, 'fixed', False))
        res = model_check(sc, 'MerkleRace', 'RM.cfg', timeout=3400,
                          expect_actions=('Reorg', 'Grow', 'Begin'))
        if res.violated:
            out.notes.append(f'TLC: MerkleRace.tla violates {res.violated}; verdict is taken from the real runs')
        elif not res.no_error:
            raise MachineryError(res.out[-1500:])
        out.add(states=res.distinct, transitions=res.generated)
        sc.write('RO.cfg', cfg(6, 2, 5, 2, 1, 'orig', False))
        res = run_tlc(sc, 'MerkleRace', 'RO.cfg', timeout=900)
        if not res.violated:
            raise MachineryError('MerkleRace.tla with Variant="orig" shows no violation: the model lost its teeth')
        out.notes.append(f'MerkleRace.tla Variant="orig" (code before fix c0d55d3) violates {res.violated} as expected')
        sc.write('RT.cfg', cfg(6, 2, 5, 2, 1, 'fixed', False, truncfirst=True))
        res = run_tlc(sc, 'MerkleRace', 'RT.cfg', timeout=900)
        if 'NoPoisoning' not in res.violated and 'ProofsVerify' not in res.violated:
            raise MachineryError('MerkleRace.tla with TruncFirst=TRUE shows no violation: the model lost its teeth')
        out.notes.append(f'MerkleRace.tla TruncFirst=TRUE (flush_backup before fix 28f67d5: cache truncated before the state roll-back) '
                         f'violates {res.violated} as expected; on the real stack the window is entered by parking the undo job in a '
                         f'real thread before its first commit')
        N, initlen, startlen = 6, 2, 5
        sc.write('RX.cfg', cfg(N, initlen, startlen, 2, 1, 'fixed', True))
        res = run_tlc(sc, 'MerkleRace', 'RX.cfg', workers=8, timeout=1800)
        behs = list({json.dumps(e, sort_keys=True): e for e in res.printed('SCN')}.values())
        if len(behs) < 50:
            raise MachineryError(f'only {len(behs)} behaviours exported')
        rng.shuffle(behs)
        behs.sort(key=lambda evs: -(10 * any(e['e'] == 'reorg' for e in evs) + sum(1 for e in evs if e['e'] in ('assign', 'extfetch'))))
        take = behs[:(400 if quick else 6000)]
        with ProcessPoolExecutor(max_workers=14) as ex:
            races = list(ex.map(_race, [(evs, N, initlen, startlen) for evs in take], chunksize=8))
            stack_jobs = [{'seed': seed * 100 + k, 'sizes': sizes, 'reorg_sizes': [240, 1, 2] if sizes[-2] >= 200 else [3, 1, 2]}
                          for k, sizes in
                          enumerate([[1, 2, 3, 5, 4, 7, 2, 1], [1, 199, 2, 200, 3, 201, 230, 2], [333, 1, 1, 2, 260, 1, 3, 1]]
                                    if quick else [[1, 2, 3, 5, 4, 7, 2, 1], [1, 199, 2, 200, 3, 201, 230, 2], [333, 1, 1, 2, 260, 1, 3, 1], [1, 199, 2, 200, 3, 201, 1, 2],
                                                   [2] * 20, [1, 500, 1, 2, 3, 230, 231, 1, 1, 1, 1, 1, 1, 1, 1, 1, 1, 1, 1, 1, 1, 2]])]
            stacks = list(ex.map(_stack, stack_jobs))
        errors = [t for t in races + stacks if 'error' in t]
        if errors:
            raise MachineryError(f'{len(errors)} executions failed in the harness, first:\n{errors[0]["error"]}\n{str(errors[0]["job"])[:500]}')
        # cache level: every answer validated by TLC against the definition
        recs = []
        owner = []
        failed_clean = []
        for t in races:
            for r in t['results']:
                if r['kind'] == 'failed':
                    continue
                if not r['clean'] or r.get('stale'):
                    continue        # overlapped a reorg: may answer for an in-between state
                if r['at'] == 'finish' and not r['ok']:
                    continue
                recs.append({k: r[k] for k in ('kind', 'n', 'i', 'extra', 'tsc', 'ok', 'branch', 'root', 'src')})
                owner.append((t, r))
        res, failures = validate_traces(sc, 'MerkleResTrace', 'MerkleResTrace.cfg', recs, workers=16, timeout=3000)
        out.add(traces_validated_against_impl=len(races), answers_validated=len(recs), trace_states=res.distinct)
        seen = set()
        for f in sorted(failures, key=lambda f: f['tid']):
            t, r = owner[f['tid'] - 1]
            key = json.dumps(t['job']['evs'])
            if key in seen:
                continue
            seen.add(key)
            if len(out.violations) < 4:
                out.violation(f"{f['clause']}: MerkleCache answered (length {r['n']}, index {r['i']}) wrongly at {r['at']} "
                              f"(ok={r['ok']} {r.get('exc', '')}) after {[(e['e'], e.get('id'), e.get('n'), e.get('length')) for e in t['job']['evs']]}",
                              {'kind': 'merklerace', 'job': t['job']})
        # full stack
        nproofs = 0
        for t in stacks:
            nproofs += t['checked']
            for b in t['bad'][:3]:
                if len(out.violations) < 6:
                    out.violation(f'full stack: {b}', {'kind': 'proofs', 'job': t['job'], 'what': b})
        out.add(full_stack_proofs_checked=nproofs, full_stack_runs=len(stacks))
        out.sample({'behaviour': take[0]})
        out.sample({'full_stack': stacks[0]['summary']})
    out.add(harness_side=['double-SHA256 folding of the proofs returned by the real sessions (classic, by position, TSC, header '
                          'proofs) is byte-level and done by the harness; TLC decides the cache-level answers over structural hashes'])
    out.assumptions += ['TLC', 'structural hash is injective', 'proof requests overlapping a reorg may fail or answer for a state '
                        'between their start and end (the property allows it); afterwards everything must verify']
    return out.finish()


def replay(doc):
    r = doc['replay']
    if r['kind'] == 'merklerace':
        j = r['job']
        t = _race((j['evs'], j['N'], j['initlen'], j['startlen']))
        print(json.dumps(t)[:3000])
        return 1
    t = _stack(r['job'])
    print(json.dumps(t)[:3000])
    return 1 if t.get('bad') else 0
