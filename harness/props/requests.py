'''C16 - malformed client requests are refused cleanly and change nothing;
C17 - replies stay within the advertised size limits.

TLC (Requests.tla) enumerates every protocol method x vector of JSON value shapes (pairwise
beyond two parameters in the quick tier, all vectors in the thorough tier) with the
malformedness of each vector; each is concretised to raw JSON texts (including literals only
Python's parser accepts) and sent through a real ElectrumX session of the full stack, on a
populated index, next to a second client with live subscriptions; outcome class and state
snapshots before / after are validated by TLC (RequestsTrace.tla).  C17: headers requests over
(start, count, cp_height) around the end of a chain of > 2016 headers, and a script hash whose
confirmed history is just below / at / above MAX_SEND // 99, through real sessions; TLC checks
the limit formulas on what was returned.
'''
import json
import os
import random
import sys
from concurrent.futures import ProcessPoolExecutor

from harness.evidence import Outcome
from harness.tlc import Scratch, run_tlc, model_check, validate_traces, MachineryError


def _req(job):
    import logging
    logging.disable(logging.CRITICAL)
    sys.stderr = open(os.devnull, 'w')
    from harness.requestrun import run_requests
    try:
        return run_requests(job)
    except Exception:
        import traceback
        return {'error': traceback.format_exc()[-1800:], 'job': {'n': len(job['requests'])}}


def _lim(job):
    import logging
    logging.disable(logging.CRITICAL)
    sys.stderr = open(os.devnull, 'w')
    from harness.requestrun import run_limits
    try:
        return run_limits(job)
    except Exception:
        import traceback
        return {'error': traceback.format_exc()[-1800:], 'job': job}


def check(pid, tier, seed):
    quick = tier == 'quick'
    out = Outcome(pid, tier, seed, 'exploration' if pid == 'C16' else 'model_checking')
    rng = random.Random(seed)
    with Scratch(pid.lower()) as sc:
        if pid == 'C16':
            sc.write('Q.cfg', f'CONSTANTS Pairwise = {"TRUE" if quick else "FALSE"} Export = TRUE\nSPECIFICATION Spec\nINVARIANT TypeOK\nCHECK_DEADLOCK FALSE\n')
            res = run_tlc(sc, 'Requests', 'Q.cfg', workers=1, timeout=3000)
            if not res.no_error:
                raise MachineryError(res.out[-1500:])
            reqs = res.printed('REQ')
            if len(reqs) < 3000:
                raise MachineryError(f'only {len(reqs)} request tuples enumerated')
            out.add(states=res.distinct, transitions=res.generated)
            rng.shuffle(reqs)
            if not quick and len(reqs) > 120000:
                # all vectors up to three parameters; the four-parameter method is sampled
                small = [r for r in reqs if len(r['v']) <= 3]
                big = [r for r in reqs if len(r['v']) > 3]
                reqs = small + big[:60000]
            nproc = 14
            chunks = [reqs[k::nproc] for k in range(nproc)]
            jobs = [{'requests': c, 'seed': seed * 100 + k, 'nconc': 1 if quick else 3} for k, c in enumerate(chunks)]
            with ProcessPoolExecutor(max_workers=nproc) as ex:
                runs = list(ex.map(_req, jobs))
            errors = [t for t in runs if 'error' in t]
            if errors:
                raise MachineryError(f'{len(errors)} executions failed in the harness, first:\n{errors[0]["error"]}')
            recs = [r for t in runs for r in t['records']]
            keys = ('kind', 'malformed', 'hash_malformed', 'outcome', 'sub_changed', 'cache_changed', 'victim_changed')
            res, failures = validate_traces(sc, 'RequestsTrace', 'RequestsTrace.cfg', [{k: r[k] for k in keys} for r in recs],
                                            workers=16, timeout=3000)
            distinct = len({(r['m'], tuple(r['v'])) for r in recs})
            out.add(evaluations=len(recs), distinct_nontrivial=distinct, trace_states=res.distinct,
                    traces_validated_against_impl=len(recs),
                    rule='one raw JSON request per (method, shape vector) enumerated by TLC from Requests.tla (x up to 3 concrete '
                         'spellings per shape in the thorough tier); distinct = distinct (method, shape vector); every one is sent to a '
                         'real session on a populated index next to a subscribed second client',
                    malformed=sum(1 for r in recs if r['malformed']),
                    outcomes={o: sum(1 for r in recs if r['outcome'] == o) for o in {r['outcome'] for r in recs}})
            seen = set()
            for f in sorted(failures, key=lambda f: f['tid']):
                r = recs[f['tid'] - 1]
                key = (f['clause'], r['m'], tuple(r['v']))
                if key in seen:
                    continue
                seen.add(key)
                if len(out.violations) < 6:
                    out.violation(f"{f['clause']}: {r['m']}({', '.join(r['texts'])}) -> {r['outcome']} {r['reply']} "
                                  f"sub_changed={r['sub_changed']} cache_changed={r['cache_changed']} victim_changed={r['victim_changed']}",
                                  {'kind': 'request', 'm': r['m'], 'v': r['v'], 'texts': r['texts']})
            for t in runs:
                for d in t['died']:
                    out.violation(f'a server task died while requests were served: {d}', {'kind': 'died'})
                for h in t['held']:
                    if h[2] != 1 and len(out.violations) < 8:
                        out.violation(f'after the requests the subscribed client holds a wrong status / tip: {h}', {'kind': 'victim'})
            for r in recs[:2] + [x for x in recs if x['malformed']][:2]:
                out.sample({k: r[k] for k in ('m', 'v', 'texts', 'outcome', 'malformed', 'reply')})
            out.assumptions += ['TLC enumerates the (method, shape vector) space; the concrete spellings per shape are a finite list in the '
                                'harness', 'server.add_peer resolves names through the real getaddrinfo (no network: immediate failure)']
        else:
            sc.write('Q.cfg', 'CONSTANTS Pairwise = TRUE Export = FALSE\nSPECIFICATION Spec\nINVARIANT TypeOK\nCHECK_DEADLOCK FALSE\n')
            res = model_check(sc, 'Requests', 'Q.cfg', timeout=600)
            out.add(states=res.distinct, transitions=res.generated)
            jobs = [{'what': 'headers', 'height': 2030}, {'what': 'history', 'max_send': 350000}]
            if not quick:
                jobs += [{'what': 'headers', 'height': 2016}, {'what': 'headers', 'height': 4100},
                         {'what': 'history', 'max_send': 400000}, {'what': 'history', 'max_send': 1}]
            with ProcessPoolExecutor(max_workers=6) as ex:
                runs = list(ex.map(_lim, jobs))
            errors = [t for t in runs if 'error' in t]
            if errors:
                raise MachineryError(f'{len(errors)} executions failed in the harness, first:\n{errors[0]["error"]}')
            recs = [r for t in runs for r in t['records']]
            res, failures = validate_traces(sc, 'RequestsTrace', 'RequestsTrace.cfg', recs, workers=16, timeout=3000)
            out.add(traces_validated_against_impl=len(recs), trace_states=res.distinct,
                    headers_requests=sum(1 for r in recs if r['kind'] == 'headers'),
                    history_cases=sum(1 for r in recs if r['kind'] in ('history', 'growth')))
            seen = set()
            for f in sorted(failures, key=lambda f: f['tid']):
                r = recs[f['tid'] - 1]
                if len(out.violations) < 6:
                    out.violation(f"{f['clause']}: {json.dumps(r)[:400]}", {'kind': 'limits', 'record': r})
            for t in runs:
                for d in t['died']:
                    out.violation(f'a server task died: {d}', {'kind': 'died'})
            for r in recs[:1] + [x for x in recs if x['kind'] != 'headers'][:3]:
                out.sample(r)
            out.assumptions += ['TLC checks the limit formulas on the recorded replies; the histories are built from generation-like '
                                'transactions (no prevouts), which the indexer accepts']
    return out.finish()


def replay(doc):
    print(json.dumps(doc['replay'])[:2000])
    return 1
