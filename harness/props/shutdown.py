'''C06 - shutdown at any moment leaves a consistent database and keeps finished work.

TLC: Shutdown.tla (main task, shielded inner tasks, state_lock, ok flag, worker jobs whose
steps interleave with the tasks, one cancellation anywhere, the handler).  Binding: on
scenarios exported by TLC from Index.tla the real processing task is cancelled at EVERY
driver step (gate wait, job execution, job delivery, timer), and every flush job is parked in
a real thread before each of its durable operations while shutdown proceeds (bounded
preemption); afterwards the database is reopened by the real code and the view is validated
by TLC against the oracle (IndexTrace.tla: view clauses + KeepsFinishedWork).
'''
import json
import random
from concurrent.futures import ProcessPoolExecutor

from harness.evidence import Outcome
from harness.tlc import Scratch, run_tlc, model_check, validate_traces, MachineryError
from harness.props import index as idx

CLAUSES = {'ChainIsPath', 'UtxoViewCorrect', 'HistCorrect', 'TxNumMap', 'KeepsFinishedWork', 'NoUnexpectedDeath'}
SD_INVS = ['FlushExclusive', 'ShutdownConsistent', 'KeepsFinishedWork', 'SafeFlush']


def _run(job):
    import logging
    logging.disable(logging.CRITICAL)
    from harness.shutdownlab import run_shutdown
    events, params, cancel_at, park = job
    try:
        t = run_shutdown(events, cancel_at=cancel_at, park=park, **params)
        t['job'] = {'events': events, 'params': params, 'cancel_at': cancel_at, 'park': park}
        return t
    except Exception:
        import traceback
        return {'error': traceback.format_exc()[-1500:], 'job': {'events': events, 'params': params,
                                                                 'cancel_at': cancel_at, 'park': park}}


def sd_cfg(maxh, maxreorg, locked):
    return (f'CONSTANTS MaxH = {maxh} MaxReorg = {maxreorg} LockedFlush = {"TRUE" if locked else "FALSE"}\n'
            'SPECIFICATION Spec\nCHECK_DEADLOCK FALSE\n' + ''.join(f'INVARIANT {i}\n' for i in SD_INVS))


def check(pid, tier, seed):
    out = Outcome(pid, tier, seed, 'model_checking')
    quick = tier == 'quick'
    rng = random.Random(seed)
    with Scratch('c06') as sc:
        for maxh, maxr in ([(2, 1), (3, 1)] if quick else [(3, 2), (4, 2)]):
            sc.write('SD.cfg', sd_cfg(maxh, maxr, True))
            res = model_check(sc, 'Shutdown', 'SD.cfg', timeout=3000,
                              expect_actions=('MainPoll', 'MainInnerDone', 'MainSleep', 'MainReorg', 'InnerJobDone',
                                              'InnerFlushQ', 'JobStepAct', 'Cancel', 'HandlerAcquire', 'HandlerJobDone',
                                              'HandlerEnd'))
            if res.violated:
                out.notes.append(f'TLC: Shutdown.tla violates {res.violated}; verdict is taken from the real runs')
            elif not res.no_error:
                raise MachineryError(res.out[-1500:])
            out.add(states=res.distinct, transitions=res.generated)
        # the model of the pinned (unrepaired) code must show the overlap: guards against a vacuous model
        sc.write('SDo.cfg', sd_cfg(2, 1, False))
        res = run_tlc(sc, 'Shutdown', 'SDo.cfg', timeout=600)
        if not res.violated:
            raise MachineryError('Shutdown.tla with LockedFlush=FALSE shows no violation: the model lost its teeth')
        out.notes.append(f'Shutdown.tla with LockedFlush=FALSE (code before fix 8f21f78) violates {res.violated} as expected')
        # scenarios from Index.tla
        jobs = []
        cfgs = [('sd_fwd', idx.cfg(Active='{1, 2}', MaxBlocks=3, MaxPerBlock=1)),
                ('sd_reorg', idx.cfg(Active='{1}', MaxPerBlock=1, MaxForks=1, MaxForced=1, MaxRestarts=1,
                                     FlushKinds='{"none", "full"}')),
                ('sd_mism', idx.cfg(Active='{}', MaxPerBlock=0, MaxBlocks=5, MaxForks=1, FlushKinds='{"none", "full"}'))]
        scns = []
        mism = []
        for name, c in cfgs:
            got = idx.scenarios_from(sc, name, c, quick, seed, rng, out)
            got.sort(key=idx.interesting, reverse=True)
            pick = [] if name == 'sd_mism' else got[:(4 if quick else 30)] + rng.sample(got[(4 if quick else 30):], min(len(got) - (4 if quick else 30), 2 if quick else 20)) \
                if len(got) > (4 if quick else 30) else got
            scns += [(evs, idx.params_of(c)) for evs in pick]
            # a block that does not connect (the daemon reorganised during sync) arriving while finished blocks are
            # still unflushed: the histories are cut right after it so that every cancellation point lies around it
            cut = {}
            for evs in got:
                unflushed = False
                for n, e in enumerate(evs):
                    if e['e'] == 'advance':
                        unflushed = e.get('flush') != 'full'
                    elif e['e'] in ('caughtup', 'backedup', 'reopen'):
                        unflushed = False
                    elif e['e'] == 'mismatch':
                        if unflushed:
                            cut.setdefault(json.dumps(evs[:n + 2], sort_keys=True), evs[:n + 2])
                        break
            mism += [(evs, idx.params_of(c)) for evs in sorted(cut.values(), key=len)[:(40 if quick else 120)]]
        with ProcessPoolExecutor(max_workers=14) as ex:
            # (of the cut histories keep those the server survives: a look-back reaching the genesis block kills it)
            mdry = [t for t in ex.map(_run, [(evs, p, None, None) for evs, p in mism])
                    if 'error' not in t and not any(s.get('ev') == 'died' for s in t['steps'])
                    and any(s.get('ev') == 'cancel' for s in t['steps'])][:(2 if quick else 12)]
            out.add(mismatch_scenarios=len(mdry))
            scns += [(t['job']['events'], t['job']['params']) for t in mdry]
            dry = list(ex.map(_run, [(evs, p, None, None) for evs, p in scns]))
            bad = [t for t in dry if 'error' in t]
            if bad:
                raise MachineryError(f'dry run failed:\n{bad[0]["error"]}')
            for t in dry:
                j = t['job']
                n = next((s['at'] for s in t['steps'] if s.get('ev') == 'cancel'), 0)
                for i in range(1, n + 1):
                    jobs.append((j['events'], j['params'], i, None))
                for fj, nops in enumerate(t.get('flush_job_ops', []), start=1):
                    for k in range(1, nops + 1):
                        jobs.append((j['events'], j['params'], None, (fj, k)))
            traces = dry + list(ex.map(_run, jobs, chunksize=4))
        errors = [t for t in traces if 'error' in t]
        if errors:
            raise MachineryError(f'{len(errors)} executions failed in the harness, first:\n{errors[0]["error"]}\n{errors[0]["job"]}')
        keys = ('tree', 'activation', 'limit', 'steps')
        res, failures = validate_traces(sc, 'IndexTrace', 'IndexTrace.cfg', [{k: t[k] for k in keys} for t in traces],
                                        workers=16, timeout=3000, invariants=CLAUSES)
        ncancel = sum(1 for j in jobs if j[2] is not None)
        out.add(traces_validated_against_impl=len(traces), cancellation_points=ncancel, parked_flush_points=len(jobs) - ncancel,
                scenarios=len(scns), trace_states=res.distinct)
        seen = set()
        for f in sorted(failures, key=lambda f: (f['tid'], f['l'])):
            if f['clause'] not in CLAUSES or f['tid'] in seen:
                continue
            seen.add(f['tid'])
            t = traces[f['tid'] - 1]
            step = t['steps'][f['l'] - 1]
            if len(out.violations) < 5:
                brief = {k: v for k, v in step.items() if k in ('ev', 'h', 'tip', 'hdrs', 'memh', 'memend', 'inreorg', 'txc', 'why', 'exc')}
                out.violation(f"{f['clause']} fails after shutdown: {brief} (cancel_at={t['job']['cancel_at']} park={t['job']['park']})",
                              {'kind': 'shutdown', 'job': t['job'], 'clause': f['clause']})
        for t in traces[:1] + traces[len(dry):len(dry) + 1] + traces[-1:]:
            out.sample({'events': t['job']['events'][:10], 'cancel_at': t['job']['cancel_at'], 'park': t['job']['park'],
                        'steps': [(s.get('ev'), s.get('h'), s.get('memh')) for s in t['steps']][-4:]})
    out.assumptions += ['TLC', 'worker jobs run atomically at their execution instant except flush jobs parked before one '
                        'durable operation (<= 2 context switches between two jobs)', 'one shutdown request per run']
    return out.finish()


def replay(doc):
    j = doc['replay']['job']
    t = _run((j['events'], j['params'], j['cancel_at'], tuple(j['park']) if j['park'] else None))
    if 'error' in t:
        print(t['error'])
        return 2
    for s in t['steps']:
        print({k: v for k, v in s.items() if k in ('ev', 'h', 'tip', 'hdrs', 'memh', 'memend', 'inreorg', 'at', 'job', 'op', 'exc')})
    keys = ('tree', 'activation', 'limit', 'steps')
    with Scratch('c06r') as sc:
        _res, failures = validate_traces(sc, 'IndexTrace', 'IndexTrace.cfg', [{k: t[k] for k in keys}], workers=2, invariants=CLAUSES)
    failures = [f for f in failures if f['clause'] in CLAUSES]
    if failures:
        print(f"VIOLATION property={doc['property']} replay=(this file) clause={failures[0]['clause']}")
        return 1
    print('replay: property holds on this execution')
    return 0
