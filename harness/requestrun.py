'''C16 / C17 on the full real stack: raw JSON requests through real ElectrumX sessions.'''
from harness.crashio import CTL
import hashlib
import json
import random

from harness.clientlab import FullStack
from harness.chainlab import SCRIPTS


def concretise(shape, kind, ctx, rng, n):
    '''JSON texts (not Python values: some literals only Python's parser accepts) for a shape.'''
    table = {
        'int_ok': ['2', '3', '5'],
        'int_zero': ['0'],
        'int_neg': ['-1', '-2147483649', '-5'],
        'int_huge': [str(2 ** 63), str(10 ** 30), str(2 ** 31)],
        'int_400digits': ['1' + '0' * 400, '9' * 350],
        'bool_true': ['true'],
        'bool_false': ['false'],
        'float_frac': ['1.5', '0.0', '2.9'],
        'float_inf': ['Infinity', '-Infinity'],
        'float_nan': ['NaN'],
        'float_1e999': ['1e999', '-1e999', '1E400'],
        'str_intlike': ['"2"', '"007"', '" 3 "'],
        'str_hex64': ['"' + 'ab' * 32 + '"', '"' + 'cd' * 32 + '"', '"' + 'AB' * 32 + '"'],
        'str_hex64_known': ['"' + ctx['known_' + ('tx' if 'transaction' in ctx['method'] else 'sh')] + '"'],
        'str_hex_odd': ['"abc"', '"' + 'a' * 63 + '"', '"' + 'a' * 65 + '"'],
        'str_hex62': ['"' + 'ab' * 31 + '"', '"' + ctx['known_sh'][2:] + '"'],
        'str_hex66': ['"' + 'ab' * 33 + '"', '"00' + ctx['known_sh'] + '"'],
        'str_hex128': ['"' + 'cd' * 64 + '"', '"' + ctx['known_sh'] * 2 + '"'],
        # (bytes.fromhex skips white space: 64 characters that decode to fewer than 32 bytes, and 64 blanks)
        'str_nonhex': ['"' + 'zz' * 32 + '"', '"hello"', '"0x' + 'ab' * 31 + '"', '"' + 'ab ' * 20 + 'abcd' + '"', '"' + ' ' * 64 + '"'],
        'str_empty': ['""'],
        'str_enum': ['"txid"', '"tx"', '"block_header"', '"merkle_root"', '"nonsense"'],
        'null': ['null'],
        'list': ['[]', '[1, 2]', '["' + 'ab' * 32 + '"]'],
        'dict': ['{}', '{"a": 1}',
                 '{"hosts": {"example.verif.invalid": {"tcp_port": 50001}}, "genesis_hash": "00", "protocol_min": "1.4", '
                 '"protocol_max": "1.4", "server_version": "x", "pruning": null}'],
        'nested': ['[[[]]]', '{"a": {"b": [1, {"c": null}]}}', '[{"x": [true, [null]]}]'],
    }
    opts = table[shape]
    if len(opts) <= n:
        return opts
    rng.shuffle(opts)
    return opts[:n]


class RequestRun(FullStack):
    def __init__(self, job):
        super().__init__([], pre=[[1], [2, 4], [], [5], [], [7]], reorg_limit=50)
        self.job = job
        self.rng = random.Random(job.get('seed', 0))
        self.records = []
        self.nx = 0

    def boot(self):
        super().boot()
        from electrumx.server.daemon import DaemonError
        lab = self

        async def getrawtransaction(hex_hash, verbose=False):
            raise DaemonError({'code': -5, 'message': 'No such mempool or blockchain transaction'})

        async def broadcast_transaction(raw_tx):
            raise DaemonError({'code': -22, 'message': 'TX decode failed'})

        async def getnetworkinfo():
            return {'version': 1010000, 'subversion': '/verif/'}
        self.daemon.getrawtransaction = getrawtransaction
        self.daemon.broadcast_transaction = broadcast_transaction
        self.daemon.getnetworkinfo = getnetworkinfo

    def snapshot(self, name):
        sm = self.sm
        x = self.clients[name].session
        v = self.clients['v']
        return {'sub': (sorted(x.hashX_subs.items()), sorted((k, str(s)) for k, s in x.mempool_statuses.items()), x.subscribe_headers),
                'cache': {'hist': {bytes(k): repr(val) for k, val in sm._history_cache.items()},
                          'txh': {k: [bytes(h) for h in val] for k, val in sm._tx_hashes_cache.items()},
                          'mc': {k: id(val) for k, val in sm._merkle_cache.items()}},
                'victim': (len(v.transport.out), sorted(v.session.hashX_subs.items()), sorted(v.session.mempool_statuses))}

    def cache_altered(self, before, after):
        '''A cache is altered when an entry it held is gone or different, or when a new entry is not what an uncached
        read gives (a correct entry left behind by a refused request changes no answer anybody will ever get).'''
        for name in ('hist', 'txh', 'mc'):
            for k, val in before[name].items():
                if k not in after[name] or after[name][k] != val:
                    return 1
        limit = self.env.max_send // 99
        saved = CTL.enabled
        CTL.enabled = False
        try:
            for k in set(after['hist']) - set(before['hist']):
                if after['hist'][k] != repr(self.run_coro(self.db.limited_history(k, limit=limit))):
                    return 1
            for k in set(after['txh']) - set(before['txh']):
                try:
                    true = [bytes(h) for h in self.db.fs_tx_hashes_at_blockheight(k)]
                except Exception:      # pylint:disable=broad-except
                    return 1
                if after['txh'][k] != true:
                    return 1
            for k in set(after['mc']) - set(before['mc']):
                if not isinstance(k, int) or not 0 <= k <= self.db.state.height:
                    return 1
        finally:
            CTL.enabled = saved
        return 0

    def attacker(self):
        c = self.clients.get('x')
        if c is None or c.transport.closed or c.task.done():
            self.nx += 1
            name = 'x'
            self.clients.pop('x', None)
            self.connect(name)
            for _ in range(50):
                if not self.micro('sess'):
                    break
        return self.clients['x']

    def raw_request(self, method, texts):
        c = self.attacker()
        before = self.snapshot('x')
        rid = c.next_id
        raw = ('{"jsonrpc": "2.0", "id": %d, "method": "%s", "params": [%s]}' % (rid, method, ', '.join(texts))).encode()
        self.request('x', method, None, raw=raw)
        reply = None
        for _ in range(300):
            self.loop.run_until_idle()
            if rid in c.replies:
                reply = c.replies[rid]
                break
            if c.transport.closed:
                break
            if not self.micro('sess'):
                if not self.micro('timer'):
                    break
        for _ in range(20):
            if not self.micro('sess'):
                break
        if c.transport.closed and 'x' in self.clients and self.clients['x'] is c:
            # disconnected by the server (server.version negotiation): a fresh attacker next time
            after = before
        else:
            after = self.snapshot('x')
        if reply is None:
            outcome = 'no_reply' if not c.transport.closed else 'protocol_error'
        elif 'result' in reply:
            outcome = 'result'
        elif reply['error'].get('code') == -32603:
            outcome = 'internal'
        else:
            outcome = 'protocol_error'
        return outcome, before, after, reply

    def drive(self):
        self.pending_handover = None
        self.window = None
        self.hold = set()
        self.settle_bp()
        self.start_mempool()
        self.pool.add(3)
        self.full_refresh()
        self.start_serving()
        self.connect('v')
        self.quiesce()
        self.request('v', 'blockchain.headers.subscribe', [])
        for s in (1, 2):
            self.request('v', 'blockchain.scripthash.subscribe', [self.scripthash(s)])
        self.quiesce()
        chain = self.tree.chain(self.best)
        ctx = {'known_sh': self.scripthash(1), 'known_tx': chain[1].tx_hashes[1][::-1].hex()}
        nconc = self.job.get('nconc', 1)
        for req in self.job['requests']:
            ctx['method'] = req['m']
            choices = [concretise(sh, None, ctx, self.rng, nconc) for sh in req['v']]
            for k in range(max([len(c) for c in choices] + [1]) if nconc > 1 else 1):
                texts = [c[k % len(c)] for c in choices]
                outcome, before, after, reply = self.raw_request(req['m'], texts)
                self.records.append({'kind': 'request', 'm': req['m'], 'v': req['v'], 'malformed': req['malformed'],
                                     'hash_malformed': req['hashbad'], 'outcome': outcome,
                                     'sub_changed': int(before['sub'] != after['sub']),
                                     'cache_changed': self.cache_altered(before['cache'], after['cache']),
                                     'victim_changed': int(before['victim'] != after['victim']),
                                     'texts': [t[:40] for t in texts], 'reply': str(reply)[:160]})
        # the victim is still told the truth afterwards
        self.nb += 1
        self.tree.add(self.nb, self.best, [8])
        self.prev_best, self.best = self.best, self.nb
        self.quiesce()
        st = self.observe_quiescent()
        self.final_held = st['held']


def run_requests(job):
    r = RequestRun(job)
    t = r.run()
    died = [s for s in t['steps'] if s.get('ev') in ('died', 'raised')]
    return {'records': r.records, 'held': getattr(r, 'final_held', []), 'died': died, 'job': {'n': len(job['requests'])}}


# ------------------------------------------------------------------------------------------
class LimitsRun(FullStack):
    '''C17: headers cap on a chain of more than 2016 headers; history limit at MAX_SEND // 99.'''

    def __init__(self, job):
        super().__init__([], reorg_limit=20, prefetch=100)
        self.job = job
        self.records = []

    def _env(self):
        import os
        os.environ['MAX_SEND'] = str(self.job.get('max_send', 350000))
        try:
            return super()._env()
        finally:
            os.environ.pop('MAX_SEND', None)

    def mine(self, fill=0):
        self.nb += 1
        self.tree.add(self.nb, self.best, [], fill=fill)
        self.prev_best, self.best = self.best, self.nb

    def start(self):
        self.pending_handover = None
        self.window = None
        self.hold = set()
        self.settle_bp()
        self.start_mempool()
        self.full_refresh()
        self.start_serving()
        self.connect('c')
        self.quiesce()

    def drive(self):
        if self.job['what'] == 'headers':
            for _ in range(self.job['height']):
                self.mine()
            self.start()
            self.headers()
        else:
            self.history()

    def headers(self):
        self.headers_sweep(full=True)
        # the same around the tip after the chain has been cut back: the headers of the orphaned blocks are still in the
        # file beyond the tip (a reorganisation only moves pointers)
        old = self.best
        for _ in range(7):
            self.mine()
        self.quiesce()
        self.prev_best, self.best = self.best, old
        self.quiesce()
        if self.db.state.height == self.tree.blocks[old].height:
            self.headers_sweep(full=False)

    def headers_sweep(self, full):
        from harness.props.proofs import fold, root_of
        chain = self.tree.chain(self.best)
        H = len(chain) - 1
        hashes = [b.hash for b in chain]
        starts = sorted({0, 1, 2, H - 2017, H - 2016, H - 2015, H - 2, H - 1, H, H + 1, H + 7}) if full else [H - 5, H - 2, H - 1, H, H + 1]
        counts = [0, 1, 2, 3, 2015, 2016, 2017, 5000, 10 ** 9] if full else [1, 3, 6, 9, 30]
        for start in starts:
            if start < 0:
                continue
            for count in counts:
                avail = max(0, H + 1 - start)
                want = min(count, 2016, avail)
                last = start + want - 1
                for cp in sorted({0, max(last - 1, 0), max(last, 0), max(last, 0) + 1, H, H + 1}):
                    r = self.ask('c', 'blockchain.block.headers', [start, count, cp])
                    rec = {'kind': 'headers', 'H': H, 'start': start, 'count': min(count, 10 ** 9), 'cp': cp, 'error': 0,
                           'ret': -1, 'hexlen': -1, 'max': -1, 'proof': 0, 'proof_ok': 0}
                    if 'result' not in r:
                        rec['error'] = 1
                        rec['internal'] = int(r['error'].get('code') == -32603)
                    else:
                        res = r['result']
                        rec.update(ret=res['count'], hexlen=len(res['hex']), max=res['max'], proof=int('branch' in res))
                        ok = res['hex'] == b''.join(b.header for b in chain[start:start + res['count']]).hex()
                        if 'branch' in res and cp <= H and res['count']:
                            lastr = start + res['count'] - 1
                            if 0 <= lastr <= H:
                                got, idx = fold(hashes[lastr], res['branch'], lastr)
                                rec['proof_ok'] = int(got == root_of(hashes[:cp + 1]) and not idx and ok)
                        elif not ok:
                            rec['hexlen'] = -2
                    self.records.append(rec)

    def history(self):
        limit = max(350000, self.job.get('max_send', 350000)) // 99
        # script 3 is paid by the genesis coinbase (1 entry) and by every filler transaction
        target = limit - 2
        done = 1
        while done < target:
            n = min(600, target - done)
            self.mine(fill=n)
            done += n
        self.start()
        sh = self.scripthash(3)
        self.connect('old')
        self.quiesce()
        self.request('old', 'blockchain.scripthash.subscribe', [sh])
        self.quiesce()
        for length in (limit - 1, limit, limit + 1):
            if length == limit:
                self._notes0 = len([m for m in self.clients['old'].transport.out if m.get('method') == 'blockchain.scripthash.subscribe'])
            while done < length:
                self.mine(fill=1)
                done += 1
            self.quiesce()
            if length == limit:
                old = self.clients['old']
                hx = [k for k, v in old.session.hashX_subs.items()]
                notes = [m for m in old.transport.out if m.get('method') == 'blockchain.scripthash.subscribe']
                self.records.append({'kind': 'growth', 'sub_kept_after': int(bool(old.session.hashX_subs)),
                                     'notified_status': int(any(m['params'][1] is not None for m in notes[self._notes0:])),
                                     'later': self.classify(self.ask('old', 'blockchain.scripthash.get_history', [sh]), length)})
            name = f'n{length}'
            self.connect(name)
            self.quiesce()
            first = self.ask(name, 'blockchain.scripthash.get_history', [sh])
            again = self.ask(name, 'blockchain.scripthash.get_history', [sh])
            sub = self.ask(name, 'blockchain.scripthash.subscribe', [sh])
            kept = int(bool(self.clients[name].session.hashX_subs))
            status_ok = 0
            if 'result' in sub and 'result' in first:
                s = ''.join(f"{x['tx_hash']}:{x['height']:d}:" for x in first['result'])
                status_ok = int(sub['result'] == hashlib.sha256(s.encode()).hexdigest())
            self.records.append({'kind': 'history', 'len': length, 'limit': limit, 'first': self.classify(first, length),
                                 'again': self.classify(again, length),
                                 'subscribe': 'status' if 'result' in sub else self.classify(sub, length),
                                 'sub_kept': kept, 'status_ok': status_ok})

    def last_note_after_growth(self, old):
        # a status notification sent once the history had reached the limit would be computed from a truncated list
        return len([m for m in old.transport.out if m.get('method') == 'blockchain.scripthash.subscribe']) > getattr(self, '_notes0', 10 ** 9)

    def classify(self, reply, length):
        if 'result' in reply:
            return 'full' if isinstance(reply['result'], list) and len(reply['result']) == length else \
                f'partial:{len(reply["result"]) if isinstance(reply["result"], list) else "?"}'
        if 'history too large' in reply['error'].get('message', ''):
            return 'too_large'
        return 'error:' + str(reply['error'])[:60]


def run_limits(job):
    r = LimitsRun(job)
    t = r.run()
    died = [s for s in t['steps'] if s.get('ev') in ('died', 'raised')]
    return {'records': r.records, 'died': died, 'job': job}
