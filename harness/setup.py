'''vf setup: offline sanity of the tool chain (nothing is built; specs are parsed once).'''
import os
import subprocess
import sys

from harness.tlc import Scratch, JAR_CP, SPECS


def main():
    ok = True
    for mod in ('plyvel', 'aiorpcx', 'attr', 'pylru', 'aiohttp'):
        try:
            __import__(mod)
        except Exception as e:      # pragma: no cover
            print(f'setup: cannot import {mod}: {e}')
            ok = False
    try:
        import electrumx.server.controller   # noqa
    except Exception as e:
        print(f'setup: cannot import electrumx from {os.environ.get("VERIF_REPO")}: {e}')
        ok = False
    with Scratch('setup') as sc:
        mods = sorted(n for n in os.listdir(SPECS) if n.endswith('.tla'))
        for n in mods:
            p = subprocess.run(['java', '-cp', JAR_CP, 'tla2sany.SANY', n], cwd=sc.dir,
                               stdout=subprocess.PIPE, stderr=subprocess.STDOUT, text=True)
            if 'Semantic errors' in p.stdout or 'Could not' in p.stdout or '*** Errors' in p.stdout \
                    or 'Parsing or semantic analysis failed' in p.stdout or p.returncode != 0:
                print(f'setup: {n} does not parse:\n{p.stdout[-1500:]}')
                ok = False
        print(f'setup: {len(mods)} TLA+ modules parsed')
    print('setup: ok' if ok else 'setup: FAILED')
    return 0 if ok else 2
