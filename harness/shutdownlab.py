'''C06: shutdown (cancellation) at every suspension point of the real processing task, plus
bounded preemption of flush jobs: a flush job may be parked (in a real thread) before any one
of its durable operations while the rest of the system - including a second flush started by
the shutdown handler - runs on; it is resumed when nothing else can run or the task is done.
'''
import threading

from harness.detloop import NoProgress
from harness.crashio import CTL
from harness.indexlab import IndexRun, StopRun


class ShutdownRun(IndexRun):
    def __init__(self, events, *, cancel_at=None, park=None, **kw):
        super().__init__(events, **kw)
        self.cancel_at = cancel_at      # ordinal of the driver step at which shutdown is requested
        self.park_spec = park           # (flush job ordinal, op ordinal within it) or None
        self.points = 0
        self.flush_jobs = 0
        self.flush_job_ops = []
        self.cancelled = False
        self.memh_at_cancel = None
        self.in_reorg_at_cancel = False
        self.parked = None

    def request_shutdown(self):
        self.cancelled = True
        self.memh_at_cancel = self.bp.state.height if self.bp.state is not None else -1
        self.in_reorg_at_cancel = bool(getattr(self, 'in_reorg', False))
        self.shutdown_event.set()
        self.task.cancel()
        self.steps.append({'ev': 'cancel', 'at': self.points, 'memh': self.memh_at_cancel})

    def resume_parked(self):
        p = self.parked
        if p is None:
            return
        p['ctl']['resume'].set()
        p['thread'].join()
        CTL.park = None
        self.parked = None
        job = p['job']
        if p['err']:
            raise p['err'][0]
        job.deliver()

    def drive(self):
        bp = self.bp
        real_reorg = bp.reorg_chain

        async def reorg_chain(count):
            self.in_reorg = True
            try:
                await real_reorg(count)
            finally:
                self.in_reorg = False
        bp.reorg_chain = reorg_chain
        exhausted_polls = 0
        while True:
            self.points += 1
            if self.points > 20000:
                raise NoProgress('driver: too many steps')
            if self.cancel_at is not None and self.points == self.cancel_at and not self.cancelled:
                self.request_shutdown()
            self.loop.run_until_idle()
            if self.task.done():
                break
            jobs = [j for j in self.loop.pending_jobs() if not (self.parked and j is self.parked['job'])]
            if jobs:
                job = jobs[0]
                is_flush = 'flush_dbs' in job.name
                if is_flush:
                    self.flush_jobs += 1
                before = CTL.count
                if is_flush and self.park_spec and self.flush_jobs == self.park_spec[0] and self.parked is None:
                    # run this flush in a real thread and park it before its k-th durable operation
                    ctl = {'thread': None, 'at': self.park_spec[1], 'count': 0, 'parked': threading.Event(),
                           'resume': threading.Event()}
                    err = []
                    done = threading.Event()

                    def body():
                        ctl['thread'] = threading.get_ident()
                        CTL.park = ctl
                        try:
                            job.execute()
                        except BaseException as e:
                            err.append(e)
                        finally:
                            done.set()
                            ctl['parked'].set()
                    th = threading.Thread(target=body, daemon=True)
                    self.parked = {'job': job, 'thread': th, 'ctl': ctl, 'err': err, 'done': done}
                    th.start()
                    ctl['parked'].wait()
                    if done.is_set():
                        # fewer operations than the park ordinal: the job simply ran
                        th.join()
                        CTL.park = None
                        self.parked = None
                        job.deliver()
                    else:
                        self.steps.append({'ev': 'parked', 'job': self.flush_jobs, 'op': self.park_spec[1]})
                        if self.cancel_at is None:
                            # the point of parking is to let the shutdown overlap the flush
                            self.request_shutdown()
                    continue
                job.execute()
                if is_flush:
                    self.flush_job_ops.append(CTL.count - before)
                job.deliver()
                continue
            if self.gates:
                g = self.gates[0]
                if g.name == 'height':
                    more = self.consume_until(('poll',))
                    if not more:
                        exhausted_polls += 1
                        if exhausted_polls >= 2:
                            if not self.cancelled:
                                self.request_shutdown()
                            continue
                    if self.tree.blocks[self.best].height > self.bp.state.height:
                        self.fresh = True
                elif g.name == 'lookback':
                    while self.env_events and self.env_events[0]['e'] != 'poll':
                        e = self.env_events.pop(0)
                        if e['e'] == 'lookback':
                            break
                        self.apply_env(e)
                g.release()
                continue
            if self.parked is not None:
                self.resume_parked()
                continue
            if not self.loop.advance():
                raise NoProgress('driver: deadlock')
        # the task has returned: every job still running finishes (threads are not cancelled)
        if self.parked is not None:
            self.resume_parked()
        for j in list(self.loop.pending_jobs()):
            j.execute()
            j.deliver()
        self.loop.run_until_idle()
        exc = None
        if not self.task.cancelled():
            exc = self.task.exception()
        if exc is not None:
            self.steps.append(self.classify_death(exc))
        mem_end = self.bp.state.height if self.bp.state is not None else -1
        # reopen, as the next start of the server would, and look
        self.abandon()
        self.reopen_and_observe({'memh': self.memh_at_cancel if self.memh_at_cancel is not None else -1,
                                 'memend': mem_end, 'inreorg': bool(self.in_reorg_at_cancel)})

    def reopen_and_observe(self, extra):
        from electrumx.server.db import DB
        from harness.detloop import VirtualLoop
        self.env = self._env()
        self.loop = VirtualLoop()
        self.db = DB(self.env)
        CTL.enabled = False
        try:
            self.loop.run_task(self.db.open_for_serving())
            view = self.loop.run_task(self.observe('stopped', extra))
        finally:
            CTL.enabled = True
        self.steps.append(view)


def run_shutdown(events, **kw):
    return ShutdownRun(events, **kw).run()
