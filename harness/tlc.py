'''Run TLC (exhaustive / behaviour export / simulation / trace validation) and parse its output.

Every run happens in a private scratch directory under /dev/shm that holds copies of the
specs; the caller removes it (Scratch is a context manager).
'''
import json
import os
import re
import shutil
import subprocess
import tempfile
import time

HOME = os.environ.get('VERIF_HOME', os.path.dirname(os.path.dirname(os.path.abspath(__file__))))
SPECS = os.path.join(HOME, 'specs')
JAR_CP = '/opt/veriftools/tla/tla2tools.jar:/opt/veriftools/tla/CommunityModules-deps.jar'


class MachineryError(Exception):
    '''The verification machinery itself failed (exit status 2).'''


class Scratch:
    '''Scratch directory under /dev/shm holding a copy of all specs.'''

    def __init__(self, tag='vf'):
        base = '/dev/shm' if os.path.isdir('/dev/shm') else None
        if base:
            # scratch directories of checks that were killed stay behind in memory (tmpfs): drop those older than 6 hours
            try:
                now = time.time()
                for name in os.listdir(base):
                    path = os.path.join(base, name)
                    if re.match(r'^(c\d\d[a-z]?|idx|vf|x|pl|c\d\dr)-', name) and os.path.isdir(path) \
                            and now - os.path.getmtime(path) > 6 * 3600:
                        shutil.rmtree(path, ignore_errors=True)
            except OSError:
                pass
        self.dir = tempfile.mkdtemp(prefix=f'{tag}-', dir=base)
        for name in os.listdir(SPECS):
            if name.endswith(('.tla', '.cfg')):
                shutil.copy(os.path.join(SPECS, name), self.dir)

    def path(self, *parts):
        return os.path.join(self.dir, *parts)

    def write(self, name, text):
        with open(self.path(name), 'w') as f:
            f.write(text)
        return self.path(name)

    def __enter__(self):
        return self

    def __exit__(self, *exc):
        shutil.rmtree(self.dir, ignore_errors=True)


class TLCResult:
    def __init__(self, out, wall):
        self.out = out
        self.wall = wall
        m = re.findall(r'(\d+) states generated, (\d+) distinct states found', out)
        self.generated = int(m[-1][0]) if m else 0
        self.distinct = int(m[-1][1]) if m else 0
        m = re.search(r'depth of the complete state graph search is (\d+)', out)
        self.depth = int(m.group(1)) if m else 0
        self.no_error = 'No error has been found' in out
        self.violated = re.findall(r'Error: Invariant (\w+) is violated', out)
        self.violated += re.findall(r'Error: Action property (\w+) is violated', out)
        if 'Temporal properties were violated' in out:
            self.violated.append('TemporalProperty')
        self.deadlock = 'Deadlock reached' in out
        self.timed_out = False
        self.failed_to_run = (not m and not self.violated and not self.no_error
                              and 'states generated' not in out)

    def iter_printed(self, tag):
        '''Values printed with PrintT(<<tag, ToJson(x)>>), decoded one at a time (nothing is kept).'''
        import io
        marker = '<<"%s", "' % tag
        for line in io.StringIO(self.out):
            i = line.find(marker)
            if i < 0:
                continue
            body = line[i + len(marker):]
            j = body.rfind('">>')
            if j < 0:
                continue
            text = body[:j]
            # TLC prints the string with TLA+ escapes: \" and \\
            text = text.replace('\\"', '"').replace('\\\\', '\\')
            try:
                yield json.loads(text)
            except ValueError:
                raise MachineryError(f'cannot decode printed {tag}: {text[:200]}')

    def printed(self, tag):
        '''Values printed with PrintT(<<tag, ToJson(x)>>): returns list of decoded JSON.'''
        return list(self.iter_printed(tag))

    def error_trace(self):
        '''The counterexample as a list of (header, text) per state, raw text.'''
        states = re.split(r'\nState (\d+): ', self.out)
        res = []
        for k in range(1, len(states) - 1, 2):
            res.append(states[k + 1].split('\n\n')[0])
        return res

    def coverage(self):
        '''Per-action (name -> (distinct, taken)) from -coverage output.'''
        cov = {}
        for m in re.finditer(r'<(\w+) line \d+, col \d+ to line \d+, col \d+ of module (\w+)>: (\d+):(\d+)',
                             self.out):
            name, _mod, distinct, taken = m.group(1), m.group(2), int(m.group(3)), int(m.group(4))
            d0, t0 = cov.get(name, (0, 0))
            cov[name] = (max(d0, distinct), max(t0, taken))
        return cov


def run_tlc(scratch, module, cfg, *, workers=16, simulate=None, depth=None, seed=None,
            coverage=False, cont=False, timeout=1800, env_extra=None, dfs=False, heap='8g',
            extra=(), soft=False):
    '''Run TLC on scratch/<module>.tla with scratch/<cfg>.'''
    meta = tempfile.mkdtemp(prefix='meta-', dir=scratch.dir)
    cmd = ['java', '-XX:+UseParallelGC', f'-Xmx{heap}']
    if dfs:
        cmd.append('-Dtlc2.tool.queue.IStateQueue=StateDeque')
    cmd += ['-cp', JAR_CP, 'tlc2.TLC', '-metadir', meta, '-noGenerateSpecTE',
            '-workers', str(workers), '-config', cfg]
    if simulate:
        cmd += ['-simulate', simulate]
    if depth:
        cmd += ['-depth', str(depth)]
    if seed is not None:
        cmd += ['-seed', str(seed)]
    if coverage:
        cmd += ['-coverage', '1']
    if cont:
        cmd += ['-continue']
    cmd += list(extra)
    cmd.append(module)
    env = dict(os.environ)
    env.pop('JAVA_TOOL_OPTIONS', None)
    if env_extra:
        env.update(env_extra)
    start = time.time()
    try:
        p = subprocess.run(cmd, cwd=scratch.dir, env=env, stdout=subprocess.PIPE,
                           stderr=subprocess.STDOUT, timeout=timeout, text=True)
        out = p.stdout
    except subprocess.TimeoutExpired as e:
        out = (e.stdout or b'').decode() if isinstance(e.stdout, bytes) else (e.stdout or '')
        subprocess.run(['pkill', '-f', meta], check=False)
        if soft:
            # a time budget, not a failure: what was explored so far is reported (states from the last progress line)
            res = TLCResult(out, time.time() - start)
            res.timed_out = True
            m = re.findall(r'([\d,]+) states generated \([\d,]+ s/min\), ([\d,]+) distinct states found', out)
            if m:
                res.generated = int(m[-1][0].replace(',', ''))
                res.distinct = int(m[-1][1].replace(',', ''))
            return res
        raise MachineryError(f'TLC timed out after {timeout}s on {module}/{cfg}\n{out[-2000:]}')
    finally:
        shutil.rmtree(meta, ignore_errors=True)
    res = TLCResult(out, time.time() - start)
    if ('Parsing or semantic analysis failed' in out or 'TLC threw an unexpected exception' in out
            or 'Error: TLC threw' in out or 'java.lang.' in out and 'Exception' in out and not res.violated
            and not res.no_error):
        raise MachineryError(f'TLC failed on {module}/{cfg}:\n{out[-4000:]}')
    return res


def model_check(scratch, module, cfg, *, expect_actions=(), **kw):
    '''Exhaustive run that must end without error; returns TLCResult.  When expect_actions
    is given the run uses -coverage and every named action must have been taken (vacuity
    guard).'''
    res = run_tlc(scratch, module, cfg, coverage=bool(expect_actions), **kw)
    if expect_actions:
        cov = res.coverage()
        missing = [a for a in expect_actions if cov.get(a, (0, 0))[1] == 0]
        if missing and res.no_error:
            raise MachineryError(f'vacuous model run {module}/{cfg}: actions never taken: {missing}')
    return res


def validate_traces(scratch, module, cfg, traces, *, workers=8, timeout=1800, name='traces.json',
                    invariants=None, max_bytes=60_000_000):
    '''Batches of at most max_bytes of JSON per TLC run (the whole document is deserialised into TLC values in memory);
    trace ids in the failures are those of the full list.'''
    sizes = [len(json.dumps(t)) for t in traces]
    if sum(sizes) <= max_bytes or len(traces) <= 1:
        return _validate_traces(scratch, module, cfg, traces, workers=workers, timeout=timeout, name=name, invariants=invariants)
    res_all, failures_all, start, k = None, [], 0, 0
    while start < len(traces):
        end, tot = start, 0
        while end < len(traces) and (end == start or tot + sizes[end] <= max_bytes):
            tot += sizes[end]
            end += 1
        res, failures = _validate_traces(scratch, module, cfg, traces[start:end], workers=workers, timeout=timeout,
                                         name=f'{k}-{name}', invariants=invariants)
        os.remove(scratch.path(f'{k}-{name}'))
        for f_ in failures:
            f_['tid'] += start
        failures_all += failures
        if res_all is None:
            res_all = res
        else:
            res_all.distinct += res.distinct
            res_all.generated += res.generated
            res_all.no_error = res_all.no_error and res.no_error
            res_all.violated += res.violated
        start = end
        k += 1
    return res_all, failures_all


def _validate_traces(scratch, module, cfg, traces, *, workers=8, timeout=1800, name='traces.json',
                     invariants=None):
    '''Check recorded traces (list of JSON documents) against a trace specification.

    The trace spec reads IOEnv.TRACE_FILE, starts one behaviour per trace (variable tid)
    and consumes one recorded step per transition (variable l).  A trace is rejected when
    an INVARIANT fails in a recorded state or when the next recorded step is not a step the
    specification allows (invariant NotStuck).  Returns (result, failures) where failures
    is a list of dicts {tid, l, clause}.
    '''
    path = scratch.path(name)
    with open(path, 'w') as f:
        json.dump(traces, f)
    if invariants is not None:
        # TLC reports only the first violated invariant of a state: check just the caller's clauses, so that a clause of
        # another property failing in the same state cannot mask them
        with open(scratch.path(cfg)) as f:
            lines = f.read().splitlines()
        keep = [ln for ln in lines if not ln.startswith('INVARIANT') or ln.split()[1] in invariants]
        missing = set(invariants) - {ln.split()[1] for ln in keep if ln.startswith('INVARIANT')}
        if missing:
            raise MachineryError(f'{cfg} has no INVARIANT {sorted(missing)}')
        cfg = cfg[:-4] + '.sel.cfg'
        scratch.write(cfg, '\n'.join(keep) + '\n')
    res = run_tlc(scratch, module, cfg, workers=workers, cont=True, timeout=timeout,
                  env_extra={'TRACE_FILE': path})
    failures = []
    # With -continue TLC prints each violation followed by its trace; the last state of the
    # trace carries tid and l.
    blocks = re.split(r'Error: Invariant (\w+) is violated', res.out)
    for k in range(1, len(blocks) - 1, 2):
        clause, body = blocks[k], blocks[k + 1]
        body = body.split('Error: Invariant')[0]
        tids = re.findall(r'tid = (\d+)', body)
        ls = re.findall(r'\bl = (\d+)', body)
        if tids:
            failures.append({'tid': int(tids[-1]), 'l': int(ls[-1]) if ls else -1, 'clause': clause})
    if not res.no_error and not failures and not res.violated:
        raise MachineryError(f'trace validation did not complete ({module}):\n{res.out[-3000:]}')
    if res.violated and not failures:
        raise MachineryError(f'cannot attribute violation ({module}):\n{res.out[-3000:]}')
    # de-duplicate (same state can be reported by several workers)
    seen = set()
    uniq = []
    for f_ in failures:
        key = (f_['tid'], f_['l'], f_['clause'])
        if key not in seen:
            seen.add(key)
            uniq.append(f_)
    return res, uniq
