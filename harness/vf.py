'''vf: command line of the verification machinery.

  vf check <ID> [--tier quick|thorough]     run the check of one property
  vf replay <file>                          re-execute a replay file on the real code
  vf setup                                  verify tools / data needed offline
  vf list
Exit status: 0 property held; 1 violation (VIOLATION line printed); 2 machinery failure.
'''
import argparse
import importlib
import logging
import os
import sys
import traceback

from harness.tlc import MachineryError

# property id -> (module, function)
REGISTRY = {
    'C01': ('harness.props.index', 'check'),
    'C02': ('harness.props.index', 'check'),
    'C03': ('harness.props.index', 'check'),
    'C04': ('harness.props.index', 'check'),
    'C05': ('harness.props.index', 'check'),
    'C06': ('harness.props.shutdown', 'check'),
    'C07': ('harness.props.client', 'check'),
    'C08': ('harness.props.mempool', 'check'),
    'C09': ('harness.props.mempool', 'check'),
    'C10': ('harness.props.client', 'check'),
    'C11': ('harness.props.proofs', 'check'),
    'C12': ('harness.props.merkle', 'check'),
    'C13': ('harness.props.blockreader', 'check'),
    'C14': ('harness.props.compaction', 'check'),
    'C15': ('harness.props.index', 'check'),
    'C16': ('harness.props.requests', 'check'),
    'C17': ('harness.props.requests', 'check'),
    'C18': ('harness.props.daemonretry', 'check'),
    'C19': ('harness.props.peers', 'check'),
    'C20': ('harness.props.notify', 'check'),
}


def main():
    import faulthandler
    import signal
    # kill -USR1 <pid> prints the Python stacks of a check (or one of its forked workers) that seems stuck
    faulthandler.register(signal.SIGUSR1, all_threads=True)
    ap = argparse.ArgumentParser(prog='vf')
    sub = ap.add_subparsers(dest='cmd', required=True)
    c = sub.add_parser('check')
    c.add_argument('pid')
    c.add_argument('--tier', default=os.environ.get('VERIF_TIER', 'quick'), choices=['quick', 'thorough'])
    r = sub.add_parser('replay')
    r.add_argument('path')
    sub.add_parser('setup')
    sub.add_parser('list')
    args = ap.parse_args()
    logging.disable(logging.CRITICAL)
    seed = int(os.environ.get('VERIF_SEED', '0') or 0)
    try:
        if args.cmd == 'list':
            for pid in sorted(REGISTRY):
                print(pid, *REGISTRY[pid])
            return 0
        if args.cmd == 'setup':
            from harness import setup
            return setup.main()
        if args.cmd == 'check':
            # a check never hangs: past its wall-clock budget it stops with a machinery failure (exit 2, not a verdict)
            budget = int(os.environ.get('VERIF_BUDGET_S', '2400' if args.tier == 'quick' else '14400'))

            def out_of_time(_sig, _frm):
                import multiprocessing
                import subprocess
                print(f'MACHINERY-ERROR: {args.pid} {args.tier} did not finish within {budget}s', file=sys.stderr)
                sys.stderr.flush()
                for ch in multiprocessing.active_children():
                    ch.kill()
                subprocess.run(['pkill', '-KILL', '-P', str(os.getpid())], check=False)
                os._exit(2)
            signal.signal(signal.SIGALRM, out_of_time)
            signal.alarm(budget)
            modname, fn = REGISTRY[args.pid]
            mod = importlib.import_module(modname)
            return getattr(mod, fn)(args.pid, args.tier, seed)
        if args.cmd == 'replay':
            import json
            with open(args.path) as f:
                doc = json.load(f)
            modname, _ = REGISTRY[doc['property']]
            mod = importlib.import_module(modname)
            return mod.replay(doc)
    except MachineryError as e:
        print(f'MACHINERY-ERROR: {e}', file=sys.stderr)
        return 2
    except Exception:
        traceback.print_exc()
        print('MACHINERY-ERROR: unexpected exception in the harness', file=sys.stderr)
        return 2


if __name__ == '__main__':
    sys.exit(main())
