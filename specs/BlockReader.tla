----------------------------- MODULE BlockReader -----------------------------
(* electrumx/server/block_processor.py: OnDiskBlock.iter_txs, _chunk_offsets and         *)
(* iter_txs_reversed, at the grain of one parse attempt / one buffer refill.             *)
(* A block file is 80 header bytes, a tx-count varint of V bytes and the transactions,   *)
(* given by their lengths.  The parser premise (discharged on the real parser by the     *)
(* harness): parsing at a transaction boundary succeeds iff the whole transaction lies   *)
(* inside the buffer, and then consumes exactly its bytes.                               *)
EXTENDS Integers, Sequences, FiniteSets, TLC, Json

CONSTANTS LenSet,     \* possible transaction lengths
          MaxTx,      \* 1..MaxTx transactions
          VSet,       \* widths of the count varint
          Chunks,     \* chunk sizes explored (each >= 9)
          Export

VARIABLES lens, v, c,              \* the configuration (chosen in Init)
          phase,                   \* "fwd" | "off" | "done" | "error"
          fp, ws, we, cur, lastcur, count,
          fwd,                     \* transactions yielded by iter_txs (indices)
          base, offs, remaining    \* _chunk_offsets
vars == <<lens, v, c, phase, fp, ws, we, cur, lastcur, count, fwd, base, offs, remaining>>

RECURSIVE SeqsUpTo(_)
SeqsUpTo(n) == IF n = 0 THEN {<<>>}
               ELSE SeqsUpTo(n - 1) \cup { Append(s, x) : s \in { t \in SeqsUpTo(n - 1) : Len(t) = n - 1 }, x \in LenSet }
RECURSIVE Sum(_, _)
Sum(s, k) == IF k = 0 THEN 0 ELSE s[k] + Sum(s, k - 1)
N == Len(lens)
StartOf(k) == 80 + v + Sum(lens, k - 1)          \* absolute offset of transaction k (1-based)
FileSize == 80 + v + Sum(lens, N)
Min(a, b) == IF a < b THEN a ELSE b
TxAt(pos) == IF \E k \in 1..N : StartOf(k) = pos THEN CHOOSE k \in 1..N : StartOf(k) = pos ELSE 0
Readable == Min(c, FileSize - fp)                 \* what the next _read(chunk_size) returns

Init ==
  /\ lens \in { s \in SeqsUpTo(MaxTx) : Len(s) >= 1 } /\ v \in VSet /\ c \in Chunks
  /\ phase = "fwd"
  \* __enter__ read the header; iter_txs reads the first chunk and the count varint
  /\ fp = 80 + Min(c, 80 + v + Sum(lens, Len(lens)) - 80) /\ ws = 80 /\ we = fp
  /\ cur = 80 + v /\ lastcur = 80 + v /\ count = 0 /\ fwd = <<>>
  /\ base = 0 /\ offs = <<>> /\ remaining = 0

(* one pass of the inner "while True: cursor = d.cursor; read()" loop *)
Fits(pos) == LET k == TxAt(pos) IN k > 0 /\ pos + lens[k] <= we

FwdParse ==
  /\ phase = "fwd" /\ Fits(cur)
  /\ fwd' = Append(fwd, TxAt(cur)) /\ cur' = cur + lens[TxAt(cur)] /\ lastcur' = cur
  /\ count' = count + 1
  /\ UNCHANGED <<lens, v, c, phase, fp, ws, we, base, offs, remaining>>

(* the parse attempt at cur failed: finished, or refill from the failed transaction's start *)
FwdFail ==
  /\ phase = "fwd" /\ ~Fits(cur)
  /\ IF count = N
     THEN \* iter_txs returns; now _chunk_offsets starts on a fresh file handle
          /\ phase' = "off" /\ fp' = 80 + Min(c, FileSize - 80) /\ ws' = 80 /\ we' = fp'
          /\ cur' = 80 + v /\ lastcur' = 80 + v /\ count' = 0
          /\ base' = 80 /\ offs' = <<80 + v>> /\ remaining' = N
          /\ UNCHANGED fwd
     ELSE IF Readable = 0 \/ TxAt(cur) = 0
     THEN phase' = "error" /\ UNCHANGED <<fp, ws, we, cur, lastcur, count, fwd, base, offs, remaining>>
     ELSE /\ ws' = cur /\ we' = we + Readable /\ fp' = fp + Readable
          /\ UNCHANGED <<phase, cur, lastcur, count, fwd, base, offs, remaining>>
  /\ UNCHANGED <<lens, v, c>>

(* _chunk_offsets: base is base_offset; (cur - ws) is the cursor inside the current buffer *)
OffParse ==
  /\ phase = "off" /\ Fits(cur)
  /\ cur' = cur + lens[TxAt(cur)] /\ lastcur' = cur /\ count' = count + 1
  /\ UNCHANGED <<lens, v, c, phase, fp, ws, we, fwd, base, offs, remaining>>

OffFail ==
  /\ phase = "off" /\ ~Fits(cur)
  /\ LET rel == cur - ws                                  \* "cursor" of the failed attempt
         offs2 == IF count > 0 THEN Append(offs, base + rel) ELSE offs
         base2 == base + rel                               \* advanced unconditionally (fix 68c06a4)
         rem2 == remaining - count
     IN IF rem2 = 0
        THEN phase' = "done" /\ offs' = offs2 /\ base' = base2 /\ remaining' = 0
             /\ UNCHANGED <<fp, ws, we, cur, lastcur, count>>
        ELSE IF Readable = 0 \/ TxAt(cur) = 0
        THEN phase' = "error" /\ UNCHANGED <<fp, ws, we, cur, lastcur, count, base, offs, remaining>>
        ELSE /\ offs' = offs2 /\ base' = base2 /\ remaining' = rem2 /\ count' = 0
             /\ ws' = cur /\ we' = we + Readable /\ fp' = fp + Readable
             /\ UNCHANGED <<phase, cur, lastcur>>
  /\ UNCHANGED <<lens, v, c, fwd>>

Next == FwdParse \/ FwdFail \/ OffParse \/ OffFail
Spec == Init /\ [][Next]_vars

(* iter_txs_reversed from the offsets: every segment must be a run of whole transactions *)
SegTxs(a, b) == { k \in 1..N : a <= StartOf(k) /\ StartOf(k) + lens[k] <= b }
SegOK(a, b) == /\ a < b /\ TxAt(a) > 0
               /\ (b = FileSize \/ TxAt(b) > 0)
RevOK == /\ Len(offs) >= 2 /\ offs[1] = 80 + v /\ offs[Len(offs)] = FileSize
         /\ \A j \in 1..(Len(offs) - 1) : SegOK(offs[j], offs[j + 1])

(* ---- properties (C13, streaming clause) ---- *)
NoError == phase # "error"
ForwardExact == phase \in {"off", "done"} => fwd = [k \in 1..N |-> k]
ReverseExact == phase = "done" => RevOK
NoOverread == fp <= FileSize /\ we <= FileSize
Aligned == TxAt(cur) > 0 \/ cur = FileSize

(* export of the configurations (replayed on real block files) *)
ExportCfg == (Export /\ phase = "done") => PrintT(<<"CFG", ToJson([lens |-> lens, v |-> v, c |-> c, offs |-> offs])>>)
=============================================================================
