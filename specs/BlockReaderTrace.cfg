SPECIFICATION Spec
INVARIANT ForwardExact
INVARIANT ReverseExact
CHECK_DEADLOCK FALSE
