--------------------------- MODULE BlockReaderTrace ---------------------------
(* Property-level validation (C13, streaming clause) of what the real OnDiskBlock        *)
(* yielded for a block file of n transactions: fwd / rev are the yielded transactions as  *)
(* 1-based indices into the block (0 = not a transaction of the block), err = 1 when an   *)
(* exception escaped.                                                                     *)
EXTENDS Integers, Sequences, Json, IOUtils, TLC
Runs == JsonDeserialize(IOEnv.TRACE_FILE)
VARIABLES tid, l
vars == <<tid, l>>
Init == tid \in 1..Len(Runs) /\ l = 1
Next == UNCHANGED vars
Spec == Init /\ [][Next]_vars
R == Runs[tid]
ForwardExact == R.ferr = 0 /\ R.fwd = [k \in 1..R.n |-> k]
ReverseExact == R.rerr = 0 /\ R.rev = [k \in 1..R.n |-> R.n + 1 - k]
=============================================================================
