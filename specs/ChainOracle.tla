----------------------------- MODULE ChainOracle -----------------------------
(* What a chain of blocks over the tx-slot universe implies for an index: the UTXO set   *)
(* and the confirmed history of every script.  Written independently of how ElectrumX    *)
(* computes them; used by Index.tla (invariants) and by IndexTrace.tla / ClientTrace.tla *)
(* (validation of views recorded from the real code).                                    *)
(* A tree is a function block id -> [parent, height, txs, cb] (txs: tx ids, coinbase      *)
(* first; cb: the outputs of the block's coinbase); a chain is a sequence of block ids   *)
(* from the genesis block 0.                                                             *)
EXTENDS Universe, FiniteSets, SequencesExt

SpendableAt(o, h, act) == IF h >= act THEN o.s # 6 ELSE o.s \notin {5, 6}
RECURSIVE ChainOfIn(_, _)
ChainOfIn(tr, b) == IF b = 0 THEN <<0>> ELSE Append(ChainOfIn(tr, tr[b].parent), b)
(* transactions of a chain as <<tx id, height>> in chain order *)
RECURSIVE TxSeqIn(_, _)
TxSeqIn(tr, c) == IF c = <<>> THEN <<>>
                  ELSE TxSeqIn(tr, Front(c)) \o [k \in 1..Len(tr[Last(c)].txs) |-> <<tr[Last(c)].txs[k], Len(c) - 1>>]
(* outputs of any tx id: the coinbase of block b > 0 pays what the tree says *)
OutsIn(tr, t) == IF t > CB THEN tr[t - CB].cb ELSE TxOuts(t)
ApplyTxAt(tr, U, t, h, act) ==
  LET spent == { <<TxIns(t)[k][1], TxIns(t)[k][2]>> : k \in 1..Len(TxIns(t)) }
      kept == { e \in U : <<e.t, e.i>> \notin spent }
      outs == OutsIn(tr, t)
      new == { [t |-> t, i |-> k - 1, s |-> outs[k].s, v |-> outs[k].v, h |-> h] :
                 k \in { j \in 1..Len(outs) : SpendableAt(outs[j], h, act) } }
  IN kept \cup new
(* scripts a transaction touches: scripts of the UTXOs it spends and of its indexed outputs *)
TouchesAt(tr, U, t, h, act) ==
  { e.s : e \in { x \in U : \E k \in 1..Len(TxIns(t)) : TxIns(t)[k] = <<x.t, x.i>> } }
  \cup { OutsIn(tr, t)[k].s : k \in { j \in 1..Len(OutsIn(tr, t)) : SpendableAt(OutsIn(tr, t)[j], h, act) } }
(* one pass over a tx sequence: the UTXO set and, per script, the confirmed history as     *)
(* <<tx id, height>> in chain order                                                       *)
RECURSIVE FoldTxsAt(_, _, _)
FoldTxsAt(tr, ts, act) ==
  IF ts = <<>> THEN [U |-> {}, H |-> [s \in Scripts |-> <<>>]]
  ELSE LET r == FoldTxsAt(tr, Front(ts), act)
           x == Last(ts)
           tch == TouchesAt(tr, r.U, x[1], x[2], act)
       IN [U |-> ApplyTxAt(tr, r.U, x[1], x[2], act),
           H |-> [s \in Scripts |-> IF s \in tch THEN Append(r.H[s], x) ELSE r.H[s]]]
(* a transaction can be mined on top of tx sequence ts *)
CanMineAt(tr, ts, t, act) ==
  /\ \A k \in 1..Len(ts) : ts[k][1] # t
  /\ \A k \in 1..Len(TxIns(t)) : \E e \in FoldTxsAt(tr, ts, act).U : <<e.t, e.i>> = TxIns(t)[k]
RECURSIVE CanMineAllAt(_, _, _, _, _)
CanMineAllAt(tr, ts, S, h, act) ==
  IF S = <<>> THEN TRUE
  ELSE CanMineAt(tr, ts, Head(S), act) /\ CanMineAllAt(tr, Append(ts, <<Head(S), h>>), Tail(S), h, act)
=============================================================================
