-------------------------------- MODULE Client --------------------------------
(* session.py: the part of SessionManager / ElectrumX that keeps clients up to date:       *)
(* _notify_sessions (tip refresh, history-cache invalidation, fan-out), limited_history     *)
(* with its shared LRU cache, hashX_subscribe (subscription stored only after the status   *)
(* was computed), _notify_inner / address_status, for one script hash.  A history read is   *)
(* executed by a worker thread at one instant and delivered to the awaiting coroutine       *)
(* later; notifications and other requests run in between.                                 *)
(* Versions stand for contents: conf / mem are bumped whenever the confirmed history / the  *)
(* mempool part of the script hash changes, tip whenever the chain tip changes.             *)
(* Variant "orig" is the pinned code (cache invalidation and tip refresh only when the       *)
(* notified height changes, a read delivered after a notification is used as it is);        *)
(* "fixed" is the repaired code: every notification invalidates the touched cache entries,  *)
(* refreshes the tip whenever it differs and bumps a counter; limited_history repeats a     *)
(* read during which a notification was issued (the pattern tx_hashes_at_blockheight uses). *)
(* unc is the has-unconfirmed-inputs flag of the script hash's mempool transactions: it is   *)
(* part of the status and flips when a block confirms - or a reorganisation un-confirms - a  *)
(* parent, WITHOUT the script hash being touched; ms is ElectrumX.mempool_statuses (the      *)
(* script hashes re-checked on every tip change).  Variant "narrowms" keeps a script hash in *)
(* ms only while the flag is set (must violate Converged).                                   *)
(* _notify_sessions is two critical sections: it first awaits the header refresh (NotifyBegin *)
(* to NotifyEnd: reads may be executed and delivered, clients may ask in between), then       *)
(* bumps the counter, invalidates and fans out in one piece.  Variant "earlyinval"            *)
(* invalidates before the await instead (must violate FreshAtQuiescence).                     *)
EXTENDS Integers, Sequences, FiniteSets, TLC, Json

CONSTANTS Sessions, MaxChanges, MaxReads, Variant, Export

VARIABLES height, tip, conf, mem, unc,     \* the index + mempool as they are (what queries read)
          pendT, pendH,                    \* touched flag / height for the next notification (C20 delivers them)
          nh, hsubTip, cache, gen,         \* SessionManager: notified_height, hsub_results, history cache, invalidation generation
          sub, held, heldTip, hdrSub, ms,  \* per session
          reads,                           \* in-flight status computations
          noting,                          \* _notify_sessions is awaiting its header refresh
          win,                             \* (ghost, export only) something happened inside the last such wait: keeps the
                                           \* interleavings apart so that each is exported as a behaviour of its own
          nchanges, nreads, evs
vars == <<height, tip, conf, mem, unc, pendT, pendH, nh, hsubTip, cache, gen, sub, held, heldTip, hdrSub, ms, reads, noting, win, nchanges, nreads, evs>>
View == <<height, tip, conf, mem, unc, pendT, pendH, nh, hsubTip, cache, gen, sub, held, heldTip, hdrSub, ms, reads, noting, win, nchanges, nreads>>

None == -1
InMs == IF Variant = "narrowms" THEN mem > 0 /\ unc ELSE mem > 0
Init == /\ height = 0 /\ tip = 0 /\ conf = 0 /\ mem = 0 /\ unc = FALSE /\ pendT = FALSE /\ pendH = FALSE
        /\ ms = [s \in Sessions |-> FALSE]
        /\ nh = 0 /\ hsubTip = 0 /\ cache = None /\ gen = 0
        /\ sub = [s \in Sessions |-> FALSE] /\ held = [s \in Sessions |-> <<None, None, FALSE>>]
        /\ heldTip = [s \in Sessions |-> 0] /\ hdrSub = [s \in Sessions |-> TRUE]
        /\ reads = {} /\ noting = FALSE /\ win = FALSE /\ nchanges = 0 /\ nreads = 0 /\ evs = <<>>
Ev(e) == evs' = IF Export THEN Append(evs, e) ELSE evs

(* ---- the world changes: a block (height up), a reorg ending at the same height, a mempool change ---- *)
(* a block may confirm the parent of one of the script hash's mempool transactions (flip: the flag goes down), a
   reorganisation may un-confirm it (the flag goes up): the script hash itself is not touched by that *)
Block(touch, flip) ==
  /\ ~noting /\ nchanges < MaxChanges /\ nchanges' = nchanges + 1
  /\ flip => (mem > 0 /\ unc)
  /\ height' = height + 1 /\ tip' = tip + 1 /\ conf' = IF touch THEN conf + 1 ELSE conf
  /\ unc' = IF flip THEN FALSE ELSE unc
  /\ pendT' = (pendT \/ touch) /\ pendH' = TRUE
  /\ Ev([e |-> "block", touch |-> touch, flip |-> flip])
  /\ UNCHANGED <<mem, nh, hsubTip, cache, gen, sub, held, heldTip, hdrSub, ms, reads, noting, win, nreads>>
SameHeightReorg(touch, flip) ==
  /\ ~noting /\ nchanges < MaxChanges /\ nchanges' = nchanges + 1 /\ height > 0
  /\ flip => (mem > 0 /\ ~unc)
  /\ tip' = tip + 1 /\ conf' = IF touch THEN conf + 1 ELSE conf
  /\ unc' = IF flip THEN TRUE ELSE unc
  /\ pendT' = (pendT \/ touch) /\ pendH' = TRUE
  /\ Ev([e |-> "reorg", touch |-> touch, flip |-> flip])
  /\ UNCHANGED <<height, mem, nh, hsubTip, cache, gen, sub, held, heldTip, hdrSub, ms, reads, noting, win, nreads>>
MemChange ==
  /\ ~noting /\ nchanges < MaxChanges /\ nchanges' = nchanges + 1
  /\ mem' = mem + 1 /\ pendT' = TRUE /\ pendH' = TRUE
  /\ unc' \in BOOLEAN
  /\ Ev([e |-> "mempool", unc |-> unc'])
  /\ UNCHANGED <<height, tip, conf, nh, hsubTip, cache, gen, sub, held, heldTip, hdrSub, ms, reads, noting, win, nreads>>

(* ---- limited_history: cache hit answers at once, a miss starts a read ---- *)
StartRead(kind, s) ==
  IF cache # None
  THEN \* served from the cache: the status is computed right away
       /\ IF kind = "query" THEN UNCHANGED <<sub, held, ms>>
          ELSE /\ held' = [held EXCEPT ![s] = <<cache, mem, unc>>]
               /\ ms' = [ms EXCEPT ![s] = InMs]
               /\ sub' = IF kind = "sub" THEN [sub EXCEPT ![s] = TRUE] ELSE sub
       /\ UNCHANGED <<reads, nreads>>
  ELSE /\ nreads < MaxReads /\ nreads' = nreads + 1
       /\ reads' = reads \cup {[id |-> nreads + 1, kind |-> kind, s |-> s, val |-> None, g |-> gen]}
       /\ UNCHANGED <<sub, held, ms>>

(* ---- _notify_sessions ---- *)
NotifyBegin ==
  /\ pendH /\ ~noting /\ noting' = TRUE /\ win' = FALSE
  /\ cache' = IF Variant = "earlyinval" /\ pendT THEN None ELSE cache
  /\ Ev([e |-> "nbegin"])
  /\ UNCHANGED <<height, tip, conf, mem, unc, pendT, pendH, nh, hsubTip, gen, sub, held, heldTip, hdrSub, ms, reads, nchanges, nreads>>
Notify ==
  /\ pendH /\ noting /\ noting' = FALSE /\ pendH' = FALSE /\ pendT' = FALSE
  /\ LET changed == height # nh
         tipNew == IF Variant = "orig" THEN changed ELSE (changed \/ hsubTip # tip)
         inval == IF Variant = "orig" THEN (changed /\ pendT) ELSE IF Variant = "earlyinval" THEN FALSE ELSE pendT
         cache1 == IF inval THEN None ELSE cache
     IN /\ nh' = height
        /\ hsubTip' = IF tipNew THEN tip ELSE hsubTip
        /\ gen' = gen + 1
        /\ heldTip' = [s \in Sessions |-> IF tipNew /\ hdrSub[s] THEN tip ELSE heldTip[s]]
        \* fan-out: every subscribed session whose script hash was touched (or, on a height change, that has
        \* a mempool status) recomputes its status through limited_history
        /\ LET need == { s \in Sessions : sub[s] /\ (pendT \/ (tipNew /\ ms[s])) }
           IN IF cache1 # None
              THEN /\ held' = [s \in Sessions |-> IF s \in need THEN <<cache1, mem, unc>> ELSE held[s]]
                   /\ ms' = [s \in Sessions |-> IF s \in need THEN InMs ELSE ms[s]]
                   /\ cache' = cache1 /\ UNCHANGED <<reads, nreads>>
              ELSE /\ cache' = None
                   /\ reads' = reads \cup { [id |-> 100 + nreads, kind |-> "notif", s |-> s, val |-> None, g |-> gen'] : s \in need }
                   /\ UNCHANGED <<held, ms, nreads>>
  /\ Ev([e |-> "notify"])
  /\ ((Export /\ reads' = {} /\ nchanges > 0) => PrintT(<<"SCN", ToJson(Append(evs, [e |-> "notify"]))>>))
  /\ UNCHANGED <<height, tip, conf, mem, unc, sub, hdrSub, win, nchanges>>

(* ---- clients ---- *)
Subscribe(s) ==
  /\ ~sub[s] /\ ~\E r \in reads : r.s = s /\ r.kind = "sub"
  /\ StartRead("sub", s) /\ Ev([e |-> "subscribe", s |-> s])
  /\ UNCHANGED <<height, tip, conf, mem, unc, pendT, pendH, nh, hsubTip, cache, gen, heldTip, hdrSub, noting, nchanges>> /\ win' = (Export /\ (win \/ noting))
Query(s) ==
  /\ StartRead("query", s) /\ Ev([e |-> "query", s |-> s])
  /\ UNCHANGED <<height, tip, conf, mem, unc, pendT, pendH, nh, hsubTip, cache, gen, heldTip, hdrSub, noting, nchanges>> /\ win' = (Export /\ (win \/ noting))

(* ---- the worker thread reads the DB at one instant ---- *)
Exec(r) ==
  /\ r \in reads /\ r.val = None
  /\ reads' = (reads \ {r}) \cup {[r EXCEPT !.val = conf]}
  /\ Ev([e |-> "exec", id |-> r.id])
  /\ UNCHANGED <<height, tip, conf, mem, unc, pendT, pendH, nh, hsubTip, cache, gen, sub, held, heldTip, hdrSub, ms, noting, nchanges, nreads>> /\ win' = (Export /\ (win \/ noting))
(* ... and the coroutine continues later: cache insert, status, (for subscribe) the subscription *)
Deliver(r) ==
  /\ r \in reads /\ r.val # None
  /\ IF Variant # "orig" /\ r.g # gen
     THEN \* a notification was issued while the read was under way: read again
          /\ reads' = (reads \ {r}) \cup {[r EXCEPT !.val = None, !.g = gen]}
          /\ UNCHANGED <<cache, sub, held, ms>>
     ELSE /\ reads' = reads \ {r}
          /\ cache' = r.val
          /\ IF r.kind = "query" THEN UNCHANGED <<sub, held, ms>>
             ELSE /\ held' = [held EXCEPT ![r.s] = <<r.val, mem, unc>>]
                  /\ ms' = [ms EXCEPT ![r.s] = InMs]
                  /\ sub' = IF r.kind = "sub" THEN [sub EXCEPT ![r.s] = TRUE] ELSE sub
  /\ Ev([e |-> "deliver", id |-> r.id])
  /\ ((Export /\ reads' = {} /\ ~pendH /\ nchanges > 0) => PrintT(<<"SCN", ToJson(Append(evs, [e |-> "deliver", id |-> r.id]))>>))
  /\ UNCHANGED <<height, tip, conf, mem, unc, pendT, pendH, nh, hsubTip, gen, heldTip, hdrSub, noting, nchanges, nreads>> /\ win' = (Export /\ (win \/ noting))

Next == (\E t, f \in BOOLEAN : Block(t, f) \/ SameHeightReorg(t, f)) \/ MemChange \/ NotifyBegin \/ Notify
        \/ (\E s \in Sessions : Subscribe(s) \/ Query(s)) \/ (\E r \in reads : Exec(r) \/ Deliver(r))
Spec == Init /\ [][Next]_vars

(* ---- properties ---- *)
Quiescent == ~pendH /\ ~noting /\ reads = {}
(* C07 *)
Converged == Quiescent => \A s \in Sessions : /\ (sub[s] => held[s] = <<conf, mem, unc>>)
                                             /\ (hdrSub[s] => heldTip[s] = tip)
(* C10 *)
FreshAtQuiescence == Quiescent => cache \in {None, conf}
=============================================================================
