SPECIFICATION Spec
INVARIANT HistoryFresh
INVARIANT BalanceFresh
INVARIANT UnspentFresh
INVARIANT ByHeightFresh
INVARIANT Converged
INVARIANT NotBeforeQueryable
INVARIANT NoDeath
CHECK_DEADLOCK FALSE
