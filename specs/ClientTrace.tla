------------------------------ MODULE ClientTrace ------------------------------
(* Property-level validation (C07, C10) of what clients hold and of what the server        *)
(* answers at quiescence in full-stack runs: every query a client can make about a script   *)
(* hash and every by-height query against the oracle of the daemon's chain and mempool;     *)
(* the statuses clients hold against the statuses acceptable for those answers (hashing     *)
(* is done by the harness: held entries carry 1 when the held status is acceptable).        *)
EXTENDS ChainOracle, Json, IOUtils, TLC
Traces == JsonDeserialize(IOEnv.TRACE_FILE)
VARIABLES tid, l
vars == <<tid, l>>
T == Traces[tid]
S == T.steps[l]
Init == tid \in 1..Len(Traces) /\ l = 1
Next == l < Len(T.steps) /\ l' = l + 1 /\ UNCHANGED tid
Spec == Init /\ [][Next]_vars

NBlocks == Len(T.tree)
Tree == [b \in 0..(NBlocks - 1) |-> [parent |-> T.tree[b + 1][1], height |-> T.tree[b + 1][2], txs |-> T.tree[b + 1][3],
                                     cb |-> [k \in 1..Len(T.tree[b + 1][4]) |-> [s |-> T.tree[b + 1][4][k][1], v |-> T.tree[b + 1][4][k][2]]]]]
Outs(t) == OutsIn(Tree, t)
IsQ == S.ev = "quiescent"
O == FoldTxsAt(Tree, TxSeqIn(Tree, S.chain), T.activation)
Pool == ToSet(S.pool)
OutPairs(t) == [k \in 1..Len(Outs(t)) |-> <<Outs(t)[k].s, Outs(t)[k].v>>]
TrueIn(t) == [k \in 1..Len(TxIns(t)) |-> LET o == Outs(TxIns(t)[k][1])[TxIns(t)[k][2] + 1] IN <<o.s, o.v>>]
SumV(ps) == LET RECURSIVE Sm(_)
                Sm(k) == IF k = 0 THEN 0 ELSE ps[k][2] + Sm(k - 1)
            IN Sm(Len(ps))
FeeOf(t) == IF SumV(TrueIn(t)) - SumV(OutPairs(t)) > 0 THEN SumV(TrueIn(t)) - SumV(OutPairs(t)) ELSE 0
ScriptsTrue(t) == { TrueIn(t)[k][1] : k \in 1..Len(TrueIn(t)) } \cup { OutPairs(t)[k][1] : k \in 1..Len(OutPairs(t)) }
HasUI(t) == IF \E k \in 1..Len(TxIns(t)) : TxIns(t)[k][1] \in Pool THEN 1 ELSE 0
Mine(s) == { t \in Pool : s \in ScriptsTrue(t) }
A(s) == CHOOSE a \in ToSet(S.answers) : a[1] = s
SumPairs(R) == LET RECURSIVE Sm(_)
                 Sm(Q) == IF Q = {} THEN 0 ELSE LET x == CHOOSE y \in Q : TRUE IN x[2] + Sm(Q \ {x})
             IN Sm(R)
Delta(s) == LET RECURSIVE Bal(_)
                Bal(R) == IF R = {} THEN 0
                          ELSE LET t == CHOOSE x \in R : TRUE
                               IN SumV(SelectSeq(OutPairs(t), LAMBDA p : p[1] = s)) - SumV(SelectSeq(TrueIn(t), LAMBDA p : p[1] = s))
                                  + Bal(R \ {t})
            IN Bal(Mine(s))
Spends(s) == UNION { { <<TxIns(t)[k][1], TxIns(t)[k][2]>> : k \in 1..Len(TxIns(t)) } : t \in Mine(s) }
ConfU(s) == { e \in O.U : e.s = s }
(* C10 *)
HistoryFresh ==
  IsQ => \A s \in Scripts :
    /\ A(s)[2] = 0
    /\ A(s)[3] = O.H[s]                                                          \* confirmed history, in order
    /\ ToSet(A(s)[4]) = { <<t, HasUI(t)>> : t \in Mine(s) } /\ Len(A(s)[4]) = Cardinality(Mine(s))
    /\ ToSet(A(s)[8]) = { <<t, HasUI(t), FeeOf(t)>> : t \in Mine(s) } /\ Len(A(s)[8]) = Cardinality(Mine(s))
BalanceFresh ==
  IsQ => \A s \in Scripts :
    /\ A(s)[5] = SumPairs({ <<<<e.t, e.i>>, e.v>> : e \in ConfU(s) })
    /\ A(s)[6] = Delta(s)
UnspentFresh ==
  IsQ => \A s \in Scripts :
    ToSet(A(s)[7]) = { <<e.t, e.i, e.h, e.v>> : e \in { x \in ConfU(s) : <<x.t, x.i>> \notin Spends(s) } }
                     \cup UNION { { <<t, k - 1, 0, OutPairs(t)[k][2]>> :
                                      k \in { j \in 1..Len(OutPairs(t)) : OutPairs(t)[j][1] = s /\ <<t, j - 1>> \notin Spends(s) } } : t \in Mine(s) }
ByHeightFresh ==
  IsQ => /\ Len(S.byh) = Len(S.chain) + 1
         /\ \A h \in 1..Len(S.byh) : \A p \in 1..Len(S.byh[h]) :
              S.byh[h][p] = IF h <= Len(S.chain) /\ p <= Len(Tree[S.chain[h]].txs) THEN Tree[S.chain[h]].txs[p] ELSE -1
(* C07 *)
Converged == IsQ => \A k \in 1..Len(S.held) : S.held[k][3] = 1
NotBeforeQueryable == IsQ => S.early = <<>>
NoDeath == S.ev \notin {"died", "raised", "stuck"}
=============================================================================
