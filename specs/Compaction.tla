------------------------------ MODULE Compaction ------------------------------
(* History compaction (history.py: _compact_history, _compact_prefix, _compact_hashX,      *)
(* _flush_compaction, _cancel_compaction, clear_excess, flush, backup; the tool's main     *)
(* loop in electrumx_compact_history; DB.set_flush_count), interleaved with server runs.    *)
(* Rows are [s, f, nums]: script, flush id (key suffix), tx numbers.  truth is a ghost:      *)
(* the history each script must have.                                                      *)
EXTENDS Integers, Sequences, FiniteSets, SequencesExt, TLC, Json

CONSTANTS NS,          \* scripts 1..NS; script s has key prefix Pre(s)
          NP,          \* prefixes 0..NP-1 (the code walks 65536 two-byte prefixes)
          MaxRow,      \* max_hist_row_entries
          MaxTx,       \* bound on tx numbers created
          MaxSteps, Export,
          Variant      \* "code", or "nocancelserve": the re-open for serving does not cancel an unfinished compaction
                       \* (must violate HistoryPreserved: the state read back from disk still holds the cursor)

Scripts == 1..NS
Pre(s) == (s - 1) % NP

VARIABLES mode,        \* "sync" (opened for sync, not yet caught up) | "server" (re-opened for serving) | "stopped"
                       \* | "tool" | "tooldone" (all batches done, set_flush_count pending)
          rows, hfc, cc, cfc,     \* history DB: rows and its state record (flush_count, comp_cursor, comp_flush_count)
          mcc, mcfc, mhfc,        \* the same three as held in memory by the running process
          ufc,                    \* UTXO DB flush count
          truth, txn, steps, overflow, evs
vars == <<mode, rows, hfc, cc, cfc, mcc, mcfc, mhfc, ufc, truth, txn, steps, overflow, evs>>
View == <<mode, rows, hfc, cc, cfc, mcc, mcfc, mhfc, ufc, truth, txn, overflow>>

Init == /\ mode = "server" /\ rows = {} /\ hfc = 0 /\ cc = -1 /\ cfc = -1 /\ mcc = -1 /\ mcfc = -1 /\ mhfc = 0
        /\ ufc = 0 /\ truth = [s \in Scripts |-> <<>>] /\ txn = 0 /\ steps = 0 /\ overflow = FALSE /\ evs = <<>>

Ev(e) == /\ evs' = IF Export THEN Append(evs, e) ELSE evs
         /\ steps' = steps + 1 /\ steps < MaxSteps
         /\ ((Export /\ (e.e \in {"setfc", "kill"} \/ steps + 1 = MaxSteps)) => PrintT(<<"SCN", ToJson(Append(evs, e))>>))

RowsOf(R, s) == { r \in R : r.s = s }
RECURSIVE CatRows(_)
CatRows(R) == IF R = {} THEN <<>>
              ELSE LET r == CHOOSE r \in R : \A q \in R : r.f <= q.f IN r.nums \o CatRows(R \ {r})
Hist(R, s) == CatRows(RowsOf(R, s))

(* ---- server: a flush writes one row per touched script under flush id hfc + 1 ---- *)
Flush ==
  /\ mode \in {"sync", "server"} /\ txn < MaxTx
  /\ \E T \in (SUBSET Scripts) \ {{}} :
       /\ rows' = rows \cup { [s |-> s, f |-> mhfc + 1, nums |-> <<txn>>] : s \in T }
       /\ truth' = [s \in Scripts |-> IF s \in T THEN Append(truth[s], txn) ELSE truth[s]]
       /\ Ev([e |-> "flush", scripts |-> T])
  /\ txn' = txn + 1 /\ mhfc' = mhfc + 1 /\ hfc' = mhfc + 1 /\ ufc' = mhfc + 1
  \* write_state persists the in-memory compaction fields too
  /\ cc' = mcc /\ cfc' = mcfc
  /\ UNCHANGED <<mode, mcc, mcfc, overflow>>
(* History.backup: entries >= tx_count are removed from the rows, state written (flush count + 1) *)
Backup ==
  /\ mode = "server" /\ txn > 0
  /\ LET cut == txn - 1
         tr(nums) == SelectSeq(nums, LAMBDA n : n < cut)
     IN /\ rows' = { r \in { [x EXCEPT !.nums = tr(x.nums)] : x \in rows } : r.nums # <<>> }
        /\ truth' = [s \in Scripts |-> tr(truth[s])]
        /\ txn' = cut
  /\ mhfc' = mhfc + 1 /\ hfc' = mhfc + 1 /\ cc' = mcc /\ cfc' = mcfc
  /\ Ev([e |-> "backup"])
  /\ UNCHANGED <<mode, mcc, mcfc, ufc, overflow>>
ServerStop == /\ mode = "server" /\ mode' = "stopped" /\ Ev([e |-> "stop"])
              /\ UNCHANGED <<rows, hfc, cc, cfc, mcc, mcfc, mhfc, ufc, truth, txn, overflow>>

(* open_db: read_state, clear_excess (early return when history count <= UTXO count) *)
Excess == hfc > ufc
OpenRows == IF Excess THEN { r \in rows : r.f <= ufc } ELSE rows
OpenFc == IF Excess THEN ufc ELSE hfc
(* server start (open_for_sync): an unfinished compaction is cancelled (in memory; persisted by the next state write) *)
ServerStart ==
  /\ mode = "stopped" /\ mode' = "sync"
  /\ rows' = OpenRows /\ hfc' = OpenFc /\ mhfc' = OpenFc
  /\ mcc' = -1 /\ mcfc' = -1
  /\ Ev([e |-> "start"])
  /\ UNCHANGED <<cc, cfc, ufc, truth, txn, overflow>>
(* first catch-up (open_for_serving): the history DB is closed and opened again - its state record is read back from
   disk, where the cursor of an abandoned compaction still stands unless a flush has happened since the start - and
   the compaction is cancelled again *)
Serve ==
  /\ mode = "sync" /\ mode' = "server"
  /\ rows' = OpenRows /\ hfc' = OpenFc /\ mhfc' = OpenFc
  /\ mcc' = IF Variant = "nocancelserve" THEN cc ELSE -1
  /\ mcfc' = IF Variant = "nocancelserve" THEN cfc ELSE -1
  /\ Ev([e |-> "serve"])
  /\ UNCHANGED <<cc, cfc, ufc, truth, txn, overflow>>
(* the tool: open for compacting (no cancel), continue where it left off *)
ToolStart ==
  /\ mode = "stopped" /\ mode' = "tool" /\ ufc > 0
  /\ rows' = OpenRows /\ hfc' = OpenFc /\ mhfc' = OpenFc
  /\ mcc' = IF cc = -1 THEN 0 ELSE cc
  /\ mcfc' = IF cfc < 1 THEN 1 ELSE cfc
  /\ Ev([e |-> "tool"])
  /\ UNCHANGED <<cc, cfc, ufc, truth, txn, overflow>>

(* _compact_hashX: concatenate in key order, re-split into rows 0..n of MaxRow entries *)
Chunk(full, n) == SubSeq(full, n * MaxRow + 1, IF (n + 1) * MaxRow < Len(full) THEN (n + 1) * MaxRow ELSE Len(full))
NRows(full) == (Len(full) + MaxRow - 1) \div MaxRow
Compacted(R, s) == LET full == Hist(R, s)
                   IN { [s |-> s, f |-> n, nums |-> Chunk(full, n)] : n \in 0..(NRows(full) - 1) }
HighestN(R, s) == IF NRows(Hist(R, s)) = 0 THEN 0 ELSE NRows(Hist(R, s)) - 1
MaxOver(S) == IF S = {} THEN 0 ELSE CHOOSE x \in S : \A y \in S : y <= x
(* one call of _compact_history: prefixes mcc .. mcc+k-1, one batch with the state *)
CompactBatch ==
  /\ mode = "tool" /\ mcc >= 0 /\ mcc < NP
  /\ \E k \in 1..(NP - mcc) :
       LET S == { s \in Scripts : Pre(s) >= mcc /\ Pre(s) < mcc + k /\ RowsOf(rows, s) # {} }
           newcfc == MaxOver({mcfc} \cup { HighestN(rows, s) : s \in S })
           cur == mcc + k
       IN /\ rows' = { r \in rows : r.s \notin S } \cup UNION { Compacted(rows, s) : s \in S }
          /\ IF cur = NP
             THEN /\ mhfc' = newcfc /\ hfc' = newcfc /\ mcc' = -1 /\ mcfc' = -1 /\ cc' = -1 /\ cfc' = -1
                  /\ mode' = "tooldone"
             ELSE /\ mcc' = cur /\ mcfc' = newcfc /\ cc' = cur /\ cfc' = newcfc /\ UNCHANGED <<mhfc, hfc>>
                  /\ mode' = "tool"
          /\ overflow' = (overflow \/ newcfc > hfc)
          /\ Ev([e |-> "batch", k |-> k])
  /\ UNCHANGED <<ufc, truth, txn>>
(* db.set_flush_count(history.flush_count) *)
SetFlushCount ==
  /\ mode = "tooldone" /\ mode' = "stopped" /\ ufc' = mhfc /\ Ev([e |-> "setfc"])
  /\ UNCHANGED <<rows, hfc, cc, cfc, mcc, mcfc, mhfc, truth, txn, overflow>>
Kill ==
  /\ mode \in {"tool", "tooldone"} /\ mode' = "stopped" /\ Ev([e |-> "kill"])
  /\ UNCHANGED <<rows, hfc, cc, cfc, mcc, mcfc, mhfc, ufc, truth, txn, overflow>>

Next == Flush \/ Backup \/ ServerStop \/ ServerStart \/ Serve \/ ToolStart \/ CompactBatch \/ SetFlushCount \/ Kill
Spec == Init /\ [][Next]_vars

(* ---- properties (C14) ---- *)
(* no two rows of a script share a key: a later write would silently replace the earlier row *)
KeysUnique == \A r, q \in rows : (r.s = q.s /\ r.f = q.f) => r = q
(* every script's history is exactly what was indexed, in order - for the abandoned-then-indexing *)
(* clause only while no script has more compacted rows than the flush count (overflow)            *)
HistoryPreserved == overflow \/ (KeysUnique /\ \A s \in Scripts : Hist(rows, s) = truth[s])
(* tool phases never change any history, whatever the overflow *)
ToolPreserves == mode \in {"tool", "tooldone"} => \A s \in Scripts : Hist(rows, s) = truth[s]
(* a fresh flush id is above every existing row of the scripts it can touch *)
FreshIdAbove == (mode \in {"sync", "server"} /\ ~overflow) => \A r \in rows : r.f <= mhfc
=============================================================================
