----------------------------- MODULE DaemonRetry -----------------------------
(* electrumx/server/daemon.py: Daemon._send (retry / back-off / fail-over loop) with the  *)
(* result processors of _send_single, _send_vector (with and without error replacement)   *)
(* and _get_to_file.  One action per attempt outcome, one per sleep.                      *)
(* Back-off is counted in units of init_retry (0.25 s): 1, 2, 4, ... capped at MaxRetry.  *)
EXTENDS Integers, Sequences, FiniteSets, TLC, Json

CONSTANTS NUrls,        \* number of configured daemon URLs (1..3)
          MaxRetry,     \* max_retry / init_retry  (16 for the defaults 4.0 / 0.25)
          MaxAttempts,  \* bound on attempts in one call
          Kinds,        \* subset of {"single", "vector", "vecrepl", "file"}
          Export

Transient == {"timeout", "disc", "reset", "connerr", "clienterr", "refused"}
OutcomesOf(kind) ==
  Transient \cup
  (CASE kind = "single" -> {"warm", "rpcerr", "good"}
     [] kind = "vector" -> {"warmitem", "itemerr", "good"}
     [] kind = "vecrepl" -> {"warmitem", "itemerr", "good"}
     [] kind = "file" -> {"partial", "good"})
IsFault(kind, o) == o \in Transient \cup {"warm", "warmitem", "partial"}
(* what the call finally does on a non-fault outcome *)
Final(kind, o) ==
  IF o = "good" THEN "answer"
  ELSE IF o = "rpcerr" THEN "daemonerror"
  ELSE IF o = "itemerr" THEN (IF kind = "vecrepl" THEN "answer_with_none" ELSE "daemonerror")
  ELSE "retry"

VARIABLES kind, pc, retry, url, natt, faults, ended, endAtt, fileState, hist
vars == <<kind, pc, retry, url, natt, faults, ended, endAtt, fileState, hist>>
View == <<kind, pc, retry, url, ended, fileState>>

Init == /\ kind \in Kinds /\ pc = "attempt" /\ retry = 1 /\ url = 0 /\ natt = 0 /\ faults = 0
        /\ ended = "no" /\ endAtt = 0 /\ fileState = "none" /\ hist = <<>>

Out(ev) == Export => PrintT(<<"TRANS", ToJson([kind |-> kind, steps |-> Append(hist, ev)])>>)

Attempt(o) ==
  /\ pc = "attempt" /\ natt < MaxAttempts /\ o \in OutcomesOf(kind)
  /\ natt' = natt + 1
  /\ Out(o) /\ hist' = Append(hist, o)
  \* _get_to_file truncates the target on every attempt and writes what arrives
  /\ fileState' = IF kind # "file" THEN "none"
                  ELSE IF o = "good" THEN "full" ELSE IF o = "partial" THEN "partial" ELSE "empty"
  /\ IF IsFault(kind, o)
     THEN \* log_error: fail over when the back-off has reached the maximum
          /\ IF retry = MaxRetry /\ NUrls > 1
             THEN url' = (url + 1) % NUrls /\ retry' = 0
             ELSE UNCHANGED <<url, retry>>
          /\ pc' = "sleep" /\ faults' = faults + 1 /\ UNCHANGED <<ended, endAtt>>
     ELSE /\ ended' = Final(kind, o) /\ endAtt' = natt + 1 /\ pc' = "done"
          /\ UNCHANGED <<url, retry, faults>>
  /\ UNCHANGED kind

Max(a, b) == IF a > b THEN a ELSE b
Min(a, b) == IF a < b THEN a ELSE b
(* await asyncio.sleep(retry); retry = max(min(max_retry, retry * 2), init_retry) *)
Sleep ==
  /\ pc = "sleep" /\ pc' = "attempt"
  /\ retry' = Max(Min(MaxRetry, retry * 2), 1)
  /\ UNCHANGED <<kind, url, natt, faults, ended, endAtt, fileState, hist>>

Next == (\E o \in Transient \cup {"warm", "warmitem", "partial", "rpcerr", "itemerr", "good"} : Attempt(o)) \/ Sleep
Spec == Init /\ [][Next]_vars

(* ---- properties (C18) ---- *)
(* the call ends only on a non-transient outcome, with the answer of that very attempt *)
EndsOnlyOnGenuine == pc = "done" => /\ ended \in {"answer", "answer_with_none", "daemonerror"}
                                    /\ endAtt = natt
NeverEndsOnFault == pc = "sleep" => ended = "no"
FileWhole == (kind = "file" /\ pc = "done") => fileState = "full"
UrlInRange == url \in 0..(NUrls - 1)
BackoffBounded == retry \in 0..MaxRetry
SingleUrlNeverFailsOver == NUrls = 1 => url = 0
=============================================================================
