SPECIFICATION Spec
INVARIANT NotStuck
INVARIANT SleepLaw
INVARIANT Complete
CHECK_DEADLOCK FALSE
