--------------------------- MODULE DaemonRetryTrace ---------------------------
(* Validation of event traces recorded from the real Daemon (scripted HTTP session,       *)
(* virtual time) against DaemonRetry: every attempt must go to the URL the specification   *)
(* says, every call must end exactly when and how the specification says, with the answer *)
(* of the final attempt.  Sleep durations are compared separately (SleepLaw).             *)
EXTENDS Integers, Sequences, SequencesExt, Json, IOUtils, TLC
Traces == JsonDeserialize(IOEnv.TRACE_FILE)

VARIABLES tid, l, retry, url, natt, pc, sleepOK
vars == <<tid, l, retry, url, natt, pc, sleepOK>>

T == Traces[tid]
Steps == T.steps
Transient == {"timeout", "disc", "reset", "connerr", "clienterr", "refused"}
IsFault(o) == o \in Transient \cup {"warm", "warmitem", "partial"}
Final(kind, o) ==
  IF o = "good" THEN "answer"
  ELSE IF o = "rpcerr" THEN "daemonerror"
  ELSE IF o = "itemerr" THEN (IF kind = "vecrepl" THEN "answer_with_none" ELSE "daemonerror")
  ELSE "retry"
Max2(a, b) == IF a > b THEN a ELSE b
Min2(a, b) == IF a < b THEN a ELSE b

Init == tid \in 1..Len(Traces) /\ l = 1 /\ retry = 1 /\ url = 0 /\ natt = 0 /\ pc = "attempt" /\ sleepOK = TRUE

\* events: [ev |-> "attempt", url, outcome] | [ev |-> "sleep", dur] | [ev |-> "end", how, att, file]
Next ==
  /\ l <= Len(Steps) /\ l' = l + 1 /\ UNCHANGED tid
  /\ LET e == Steps[l] IN
     \/ /\ e.ev = "attempt" /\ pc = "attempt"
        /\ e.url = url                                   \* the attempt went to the right daemon
        /\ natt' = natt + 1
        /\ IF IsFault(e.outcome)
           THEN /\ pc' = "sleep"
                /\ IF retry = T.maxretry /\ T.nurls > 1
                   THEN url' = (url + 1) % T.nurls /\ retry' = 0
                   ELSE UNCHANGED <<url, retry>>
           ELSE pc' = Final(T.kind, e.outcome) /\ UNCHANGED <<url, retry>>
        /\ UNCHANGED sleepOK
     \/ /\ e.ev = "sleep" /\ pc = "sleep" /\ pc' = "attempt"
        /\ sleepOK' = (sleepOK /\ e.dur = retry)
        /\ retry' = Max2(Min2(T.maxretry, retry * 2), 1)
        /\ UNCHANGED <<url, natt>>
     \/ /\ e.ev = "end" /\ pc \in {"answer", "answer_with_none", "daemonerror"}
        /\ e.how = pc                                    \* returned / raised as specified
        /\ e.att = natt                                  \* ... the answer of the last attempt
        /\ (T.kind = "file" => e.file = "full")
        /\ e.url = url                                   \* current_url() afterwards
        /\ pc' = "ended" /\ UNCHANGED <<retry, url, natt, sleepOK>>

Spec == Init /\ [][Next]_vars
NotStuck == l <= Len(Steps) => ENABLED Next
SleepLaw == sleepOK
Complete == l > Len(Steps) => pc = "ended"
=============================================================================
