-------------------------------- MODULE Index --------------------------------
(* The indexing core of ElectrumX: block_processor.py (advance_block, spend_utxo,        *)
(* backup_block, reorg_chain, _calc_reorg_range, on_caught_up), db.py (flush_dbs,        *)
(* flush_fs, flush_utxo_db, flush_backup, _open_dbs, undo information) and history.py    *)
(* (add_unflushed, flush, backup, clear_excess), against a daemon whose block tree is    *)
(* grown by TLC over the tx-slot universe (Universe.tla, generated).                     *)
(*                                                                                       *)
(* One action per critical section: every durable commit (file write, history batch,     *)
(* UTXO batch) is its own step, so that Crash can fall between any two of them.          *)
(* The oracle (UtxoAt / HistAt / TxSeq) is written independently of the implementation   *)
(* state and is shared with IndexTrace.tla, which evaluates it on recorded views.        *)
EXTENDS ChainOracle, TLC, Json

CONSTANTS Active,        \* regular slots that may be mined in this configuration
          MaxBlocks,     \* block ids 1..MaxBlocks can be created (0 is the genesis block)
          MaxPerBlock,   \* regular transactions per block
          MaxForks,      \* blocks created on a non-tip parent
          Activation,    \* height from which only OP_FALSE OP_RETURN is unspendable
          ReorgLimit,    \* env.reorg_limit
          Prefetch,      \* coin.prefetch_limit
          FlushKinds,    \* subset of {"none", "hist", "full"}: what the cache-size task may ask for
          MaxCrashes,    \* process deaths injected by the model
          MaxForced,     \* forced reorgs (admin RPC)
          MaxRestarts,   \* restarts after an exception escaped the processing task
          CbKinds,       \* what a block's coinbase may pay: "miner" (one output to the miner's script), "void" (a single
                         \* OP_FALSE OP_RETURN output: a transaction that touches no script hash at all)
          Export

None == -2

VARIABLES
  tree, nb, best, nforks,                         \* daemon: block tree and best tip
  mem, cache, dels, unfl, pend, pendUndo, txcounts, fsH, dbst, hfc, touched,  \* process memory
  cachedH, batch, reorgReq, caughtUp, pc, fl, lb, toUndo,
  fHdr, fCnt, fHsh, hT, uT, undoT, rec, hist, hrec,          \* durable
  commits, crashes, forced, restarts, fresh, evs,             \* bookkeeping
  shrunk, why, rgDepth, f7, f7hole, behind

daemonVars == <<tree, nb, best, nforks>>
memVars == <<mem, cache, dels, unfl, pend, pendUndo, txcounts, fsH, dbst, hfc, touched>>
ctlVars == <<cachedH, batch, reorgReq, caughtUp, pc, fl, lb, toUndo>>
durVars == <<fHdr, fCnt, fHsh, hT, uT, undoT, rec, hist, hrec>>
auxVars == <<shrunk, why, rgDepth, f7, f7hole, behind>>
bookVars == <<commits, crashes, forced, restarts, fresh, evs, auxVars>>
vars == <<daemonVars, memVars, ctlVars, durVars, bookVars>>
View == <<daemonVars, memVars, ctlVars, durVars, commits, crashes, forced, restarts, fresh, auxVars>>

(* ===================================== oracle ===================================== *)
(* ChainOracle.tla holds the definitions (shared with IndexTrace.tla); here they are bound *)
(* to this model's tree and activation height.                                            *)
Spendable(o, h) == SpendableAt(o, h, Activation)
Height(b) == tree[b].height
ChainOf(b) == ChainOfIn(tree, b)
TxSeq(c) == TxSeqIn(tree, c)
FoldTxs(ts) == FoldTxsAt(tree, ts, Activation)
Outs(t) == OutsIn(tree, t)
MinerCb == <<[s |-> Miner, v |-> 50]>>
UtxoOfSeq(ts) == FoldTxs(ts).U
UtxoAt(c) == UtxoOfSeq(TxSeq(c))
HistAt(c, s) == FoldTxs(TxSeq(c)).H[s]
CanMineAll(ts, S, h) == CanMineAllAt(tree, ts, S, h, Activation)

(* =================================== helpers =================================== *)
Min2(a, b) == IF a < b THEN a ELSE b
Max2(a, b) == IF a > b THEN a ELSE b
AscSeq(S) == SetToSortSeq(S, <)
Candidates == { AscSeq(S) : S \in { T \in SUBSET Active : Cardinality(T) <= MaxPerBlock } }
NoMem == [h |-> -1, tip |-> -1, txc |-> 0, uc |-> 0, fc |-> 0]
(* bisect_right(tx_counts, n): height of tx number n *)
HeightOfNum(cnts, n) == Cardinality({ k \in 1..Len(cnts) : cnts[k] <= n })
Overwrite(f, off, data) == SubSeq(f, 1, Min2(off, Len(f))) \o data   \* write at offset (append-only files)
Ev(e) == evs' = IF Export THEN Append(evs, e) ELSE evs
(* cheap scalars of the process state, exported with the events that the real run can observe at the same instant
   (right after advance_block / on_caught_up / backup_block return): implementation-level conformance of the replay *)
SumSs(u) == LET RECURSIVE S(_)
                S(k) == IF k = 0 THEN 0 ELSE Cardinality(u[k].ss) + S(k - 1)
            IN S(Len(u))
(* <<memh, txc, uc, nc, nd, nu, npu, hfc, dbh, fsh>> (a tuple: the exported histories stay small) *)
Scal(m, c, d, u, pu, hf, dh, fs) ==
  <<m.h, m.txc, m.uc, Cardinality(c), Cardinality(d), SumSs(u), Len(pu), hf, dh, fs>>

Init ==
  /\ tree = [b \in {0} |-> [parent |-> -1, height |-> 0, txs |-> <<CB>>, cb |-> Funding]]
  /\ nb = 0 /\ best = 0 /\ nforks = 0
  /\ mem = NoMem /\ cache = {} /\ dels = {} /\ unfl = <<>> /\ pend = <<>> /\ pendUndo = <<>>
  /\ txcounts = <<>> /\ fsH = -1 /\ dbst = NoMem /\ hfc = 0 /\ touched = {}
  /\ cachedH = None /\ batch = <<>> /\ reorgReq = None /\ caughtUp = FALSE /\ pc = "poll"
  /\ fl = [kind |-> "none", ret |-> "poll"] /\ lb = [start |-> 0, count |-> 0] /\ toUndo = <<>>
  /\ fHdr = <<>> /\ fCnt = <<>> /\ fHsh = <<>> /\ hT = {} /\ uT = {} /\ undoT = {} /\ rec = NoMem
  /\ hist = {} /\ hrec = [fc |-> 0]
  /\ commits = {-1} /\ crashes = 0 /\ forced = 0 /\ restarts = 0 /\ fresh = FALSE /\ evs = <<>>
  /\ shrunk = FALSE /\ why = "" /\ rgDepth = 0 /\ f7 = FALSE /\ f7hole = FALSE /\ behind = FALSE

(* =================================== daemon =================================== *)
(* Daemon steps are only interleaved where the block processor looks at the daemon (the poll *)
(* and the look-back rounds) or is down: a change between two steps that do not read the   *)
(* daemon is indistinguishable from the same change just before the next read.            *)
DaemonTurn == pc \in {"poll", "rg_calc", "down", "dead"}
CbOf(k) == IF k = "void" THEN <<[s |-> 6, v |-> 0]>> ELSE MinerCb
CbJson(k) == IF k = "void" THEN <<<<6, 0>>>> ELSE <<<<Miner, 50>>>>
NewBlock(parent, S, k) ==
  /\ nb < MaxBlocks /\ DaemonTurn
  /\ CanMineAll(TxSeq(ChainOf(parent)), S, Height(parent) + 1)
  /\ nb' = nb + 1
  /\ tree' = [b \in 0..(nb + 1) |-> IF b = nb + 1
                THEN [parent |-> parent, height |-> Height(parent) + 1, txs |-> <<CB + nb + 1>> \o S, cb |-> CbOf(k)]
                ELSE tree[b]]
  /\ best' = nb + 1

Mine == /\ \E S \in Candidates, k \in CbKinds : NewBlock(best, S, k) /\ Ev([e |-> "mine", parent |-> best, txs |-> S, cb |-> CbJson(k)])
        /\ fresh' = FALSE
        /\ UNCHANGED <<nforks, memVars, ctlVars, durVars, commits, crashes, forced, restarts, auxVars>>
(* a competing block on an earlier block of the best chain; the daemon switches to it *)
Fork == /\ nforks < MaxForks /\ nforks' = nforks + 1
        /\ \E p \in { x \in Range(ChainOf(best)) : x # best } : \E S \in Candidates, k \in CbKinds :
             NewBlock(p, S, k) /\ Ev([e |-> "fork", parent |-> p, txs |-> S, cb |-> CbJson(k)])
                            /\ shrunk' = (shrunk \/ Height(p) + 1 < Height(best))
        /\ fresh' = FALSE
        /\ UNCHANGED <<memVars, ctlVars, durVars, commits, crashes, forced, restarts, why, rgDepth, f7, f7hole, behind>>
(* the daemon goes (back) to another existing leaf *)
Leaves == { b \in 0..nb : ~\E c \in 0..nb : c # b /\ tree[c].parent = b }
Switch == /\ DaemonTurn
          /\ \E b \in Leaves \ {best} : best' = b /\ Ev([e |-> "switch", to |-> b])
                                        /\ shrunk' = (shrunk \/ Height(b) < Height(best))
          /\ fresh' = FALSE
          /\ UNCHANGED <<tree, nb, nforks, memVars, ctlVars, durVars, commits, crashes, forced, restarts,
                         why, rgDepth, f7, f7hole, behind>>

(* ============================== block processor ============================== *)
BestChain == ChainOf(best)
(* next_block_hashes: poll the daemon, take the first half of the prefetch *)
Poll ==
  /\ pc = "poll" /\ reorgReq = None
  /\ cachedH' = Height(best)
  /\ LET first == mem.h + 1
         count == Min2(Height(best) - first + 1, Prefetch)
     IN IF count > 0
        THEN /\ batch' = SubSeq(BestChain, first + 1, first + ((count + 1) \div 2))
             /\ pc' = "adv" /\ fresh' = TRUE      \* the daemon's chain is longer than what is indexed
        ELSE /\ batch' = <<>> /\ pc' = "cu" /\ fresh' = fresh
  /\ Ev([e |-> "poll", h |-> Height(best), tip |-> best])
  /\ UNCHANGED <<daemonVars, memVars, reorgReq, caughtUp, fl, lb, toUndo, durVars, commits, crashes, forced, restarts,
                 auxVars>>

(* ---- spend_utxo: cache first, else the DB with collision resolution ---- *)
InCache(t, i) == { e \in cache : e.t = t /\ e.i = i }
DbCands(t, i) == { r \in hT : r.p = Pfx(t) /\ r.i = i }
(* candidates that resolve to tx t (the hash is only checked when there are several) and *)
(* still have their u-row                                                              *)
DbHits(t, i) ==
  { r \in DbCands(t, i) :
      /\ (Cardinality(DbCands(t, i)) > 1 => (r.n + 1 <= Len(fHsh) /\ fHsh[r.n + 1] = t))
      /\ \E u \in uT : u.s = r.s /\ u.i = r.i /\ u.n = r.n }
(* result of spending (t, i) given the running cache c / deletes d: [ok, ent, c, d] *)
SpendIn(c, d, t, i) ==
  LET hitC == { e \in c : e.t = t /\ e.i = i }
      hitD == { r \in DbHits(t, i) : [p |-> r.p, i |-> r.i, n |-> r.n, s |-> r.s] \notin d }
  IN IF hitC # {} THEN LET e == CHOOSE e \in hitC : TRUE
                       IN [ok |-> TRUE, ent |-> [s |-> e.s, n |-> e.n, v |-> e.v], c |-> c \ {e}, d |-> d]
     ELSE IF DbHits(t, i) # {}
     THEN LET r == CHOOSE r \in DbHits(t, i) : \A q \in DbHits(t, i) : r.n <= q.n
              u == CHOOSE u \in uT : u.s = r.s /\ u.i = r.i /\ u.n = r.n
          IN [ok |-> TRUE, ent |-> [s |-> r.s, n |-> r.n, v |-> u.v], c |-> c,
              d |-> d \cup {[p |-> r.p, i |-> r.i, n |-> r.n, s |-> r.s]}]
     ELSE [ok |-> FALSE, ent |-> [s |-> 0, n |-> 0, v |-> 0], c |-> c, d |-> d]

(* advance one transaction: acc = [c, d, undo, hx (per-tx script sets), n (tx number), uc, ok] *)
AdvTx(acc, t, h) ==
  LET ins == TxIns(t)
      RECURSIVE SpendAll(_, _)
      SpendAll(a, k) ==
        IF k > Len(ins) THEN a
        ELSE LET r == SpendIn(a.c, a.d, ins[k][1], ins[k][2])
             IN SpendAll([a EXCEPT !.c = r.c, !.d = r.d, !.undo = Append(a.undo, r.ent),
                                   !.ss = a.ss \cup {r.ent.s}, !.uc = a.uc - 1, !.ok = a.ok /\ r.ok], k + 1)
      a1 == SpendAll([acc EXCEPT !.ss = {}], 1)
      outs == Outs(t)
      good == { k \in 1..Len(outs) : Spendable(outs[k], h) }
      newc == { [t |-> t, i |-> k - 1, s |-> outs[k].s, n |-> acc.n, v |-> outs[k].v] : k \in good }
  IN [a1 EXCEPT !.c = a1.c \cup newc, !.uc = a1.uc + Cardinality(good),
                !.hx = Append(a1.hx, a1.ss \cup { outs[k].s : k \in good }), !.n = acc.n + 1]
RECURSIVE AdvTxs(_, _, _)
AdvTxs(acc, txs, h) == IF txs = <<>> THEN acc ELSE AdvTxs(AdvTx(acc, Head(txs), h), Tail(txs), h)

(* history.add_unflushed: per tx the set of scripts, tx numbers appended in order *)
AddUnflushed(u, hx, first) ==
  u \o [k \in 1..Len(hx) |-> [n |-> first + k - 1, ss |-> hx[k]]]

(* advance_block; f is what the cache-size task asks for by the time the block is done *)
Advance ==
  /\ pc = "adv" /\ batch # <<>> /\ reorgReq = None
  /\ LET b == Head(batch) IN
     IF tree[b].parent # mem.tip
     THEN \* does not connect: request a reorg, abandon the batch
          /\ reorgReq' = -1 /\ batch' = <<>> /\ pc' = "poll"
          /\ Ev([e |-> "mismatch", b |-> b])
          /\ UNCHANGED <<memVars, fl>>
     ELSE LET h == Height(b)
              acc0 == [c |-> cache, d |-> dels, undo |-> <<>>, hx |-> <<>>, n |-> mem.txc, uc |-> mem.uc,
                       ok |-> TRUE, ss |-> {}]
              acc == AdvTxs(acc0, tree[b].txs, h)
          IN /\ acc.ok                    \* a ChainError here is SpendResolves failing (invariant below)
             /\ cache' = acc.c /\ dels' = acc.d
             /\ unfl' = AddUnflushed(unfl, acc.hx, mem.txc)
             /\ txcounts' = Append(txcounts, acc.n)
             /\ pend' = Append(pend, b)
             /\ pendUndo' = IF h >= cachedH - ReorgLimit + 1
                            THEN Append(pendUndo, [h |-> h, b |-> b, ents |-> acc.undo]) ELSE pendUndo
             /\ mem' = [mem EXCEPT !.h = h, !.tip = b, !.txc = acc.n, !.uc = acc.uc]
             /\ touched' = touched \cup UNION Range(acc.hx)
             /\ batch' = Tail(batch)
             /\ \E f \in FlushKinds :
                  /\ Ev([e |-> "advance", b |-> b, flush |-> f,
                         st |-> Scal(mem', acc.c, acc.d, unfl', pendUndo', hfc, dbst.h, fsH)])
                  /\ IF f = "none" THEN pc' = (IF Tail(batch) = <<>> THEN "poll" ELSE "adv") /\ UNCHANGED fl
                     ELSE pc' = "flush" /\ fl' = [kind |-> f, ret |-> IF Tail(batch) = <<>> THEN "poll" ELSE "adv"]
             /\ UNCHANGED <<fsH, dbst, hfc, reorgReq>>
  /\ UNCHANGED <<daemonVars, cachedH, caughtUp, lb, toUndo, durVars, commits, crashes, forced, restarts, fresh, auxVars>>
(* the SpendResolves obligation, stated on the pre-state *)
NextBlockSpends ==
  (pc = "adv" /\ batch # <<>> /\ reorgReq = None /\ tree[Head(batch)].parent = mem.tip) =>
    AdvTxs([c |-> cache, d |-> dels, undo |-> <<>>, hx |-> <<>>, n |-> mem.txc, uc |-> mem.uc, ok |-> TRUE, ss |-> {}],
           tree[Head(batch)].txs, Height(Head(batch))).ok

(* ---- flush_dbs, one durable commit per step ---- *)
FlushEnter ==
  /\ pc = "flush"
  /\ pc' = IF mem.h = dbst.h THEN fl.ret ELSE "fl_hdr"       \* no-op when already at that height
  /\ UNCHANGED <<daemonVars, memVars, cachedH, batch, reorgReq, caughtUp, fl, lb, toUndo, durVars, bookVars>>
(* flush_fs: headers, then tx counts, then tx hashes, each at its offset *)
FlushHdr ==
  /\ pc = "fl_hdr" /\ pc' = "fl_cnt"
  /\ fHdr' = Overwrite(fHdr, fsH + 1, pend)
  /\ UNCHANGED <<daemonVars, memVars, cachedH, batch, reorgReq, caughtUp, fl, lb, toUndo,
                 fCnt, fHsh, hT, uT, undoT, rec, hist, hrec, bookVars>>
FlushCnt ==
  /\ pc = "fl_cnt" /\ pc' = "fl_hsh"
  /\ fCnt' = Overwrite(fCnt, fsH + 1, SubSeq(txcounts, fsH + 2, Len(txcounts)))
  /\ UNCHANGED <<daemonVars, memVars, cachedH, batch, reorgReq, caughtUp, fl, lb, toUndo,
                 fHdr, fHsh, hT, uT, undoT, rec, hist, hrec, bookVars>>
PendTxs == LET RECURSIVE Cat(_)
               Cat(s) == IF s = <<>> THEN <<>> ELSE tree[Head(s)].txs \o Cat(Tail(s))
           IN Cat(pend)
FlushHsh ==
  /\ pc = "fl_hsh" /\ pc' = "fl_hist"
  /\ fHsh' = Overwrite(fHsh, IF fsH >= 0 THEN txcounts[fsH + 1] ELSE 0, PendTxs)
  /\ pend' = <<>> /\ fsH' = mem.h
  /\ UNCHANGED <<daemonVars, mem, cache, dels, unfl, pendUndo, txcounts, dbst, hfc, touched, cachedH, batch, reorgReq,
                 caughtUp, fl, lb, toUndo, fHdr, fCnt, hT, uT, undoT, rec, hist, hrec, bookVars>>
(* History.flush: one row per script under the next flush id, state in the same batch *)
ScriptsOf(u) == UNION { u[k].ss : k \in 1..Len(u) }
RowOf(u, s) == SelectSeq([k \in 1..Len(u) |-> IF s \in u[k].ss THEN u[k].n ELSE -1], LAMBDA x : x >= 0)
FlushHist ==
  /\ pc = "fl_hist"
  /\ hfc' = hfc + 1
  /\ hist' = hist \cup { [s |-> s, f |-> hfc + 1, nums |-> RowOf(unfl, s)] : s \in ScriptsOf(unfl) }
  /\ hrec' = [fc |-> hfc + 1]
  /\ unfl' = <<>>
  /\ mem' = [mem EXCEPT !.fc = hfc + 1]
  /\ pc' = IF fl.kind = "full" THEN "fl_utxo" ELSE "chk"
  /\ UNCHANGED <<daemonVars, cache, dels, pend, pendUndo, txcounts, fsH, dbst, touched, cachedH, batch, reorgReq,
                 caughtUp, fl, lb, toUndo, fHdr, fCnt, fHsh, hT, uT, undoT, rec, commits, crashes, forced, restarts,
                 fresh, evs, auxVars>>
(* flush_utxo_db: deletes, adds (both tables), undo rows and the state record in one batch *)
ApplyUtxoBatch ==
  /\ hT' = (hT \ dels) \cup { [p |-> Pfx(e.t), i |-> e.i, n |-> e.n, s |-> e.s] : e \in cache }
  /\ uT' = { u \in uT : ~\E d \in dels : d.s = u.s /\ d.i = u.i /\ d.n = u.n }
           \cup { [s |-> e.s, i |-> e.i, n |-> e.n, v |-> e.v] : e \in cache }
  /\ undoT' = { r \in undoT : ~\E q \in Range(pendUndo) : q.h = r.h } \cup Range(pendUndo)
  /\ rec' = mem /\ dbst' = mem
  /\ cache' = {} /\ dels' = {} /\ pendUndo' = <<>>
  /\ commits' = commits \cup {mem.h}
FlushUtxo ==
  /\ pc = "fl_utxo" /\ pc' = "chk"
  /\ ApplyUtxoBatch
  /\ UNCHANGED <<daemonVars, mem, unfl, pend, txcounts, fsH, hfc, touched, cachedH, batch, reorgReq, caughtUp, fl, lb,
                 toUndo, fHdr, fCnt, fHsh, hist, hrec, crashes, forced, restarts, fresh, evs, auxVars>>

(* ---- on_caught_up ---- *)
CaughtUp ==
  /\ pc = "cu" /\ pc' = "flush" /\ fl' = [kind |-> "full", ret |-> "cu2"]
  /\ UNCHANGED <<daemonVars, memVars, cachedH, batch, reorgReq, caughtUp, lb, toUndo, durVars, bookVars>>
CaughtUp2 ==
  /\ pc = "cu2" /\ pc' = "poll"
  /\ caughtUp' = TRUE /\ touched' = {}
  /\ fresh' = fresh
  /\ Ev([e |-> "caughtup", h |-> mem.h, tip |-> mem.tip])
  \* scenario export: the environment / scheduling history up to this catch-up
  /\ (Export => PrintT(<<"SCN", ToJson(evs)>>))
  /\ UNCHANGED <<daemonVars, mem, cache, dels, unfl, pend, pendUndo, txcounts, fsH, dbst, hfc, cachedH, batch,
                 reorgReq, fl, lb, toUndo, durVars, commits, crashes, forced, restarts, auxVars>>

(* ---- reorg ---- *)
Force ==
  /\ pc \in {"poll", "adv"} /\ caughtUp /\ reorgReq = None /\ forced < MaxForced
  /\ \E n \in 1..Max2(1, Min2(mem.h, ReorgLimit + 1)) : reorgReq' = n /\ Ev([e |-> "force", n |-> n])
  /\ forced' = forced + 1
  /\ UNCHANGED <<daemonVars, memVars, cachedH, batch, caughtUp, pc, fl, lb, toUndo, durVars, commits, crashes,
                 restarts, fresh, auxVars>>
AdvBreak ==
  /\ pc = "adv" /\ reorgReq # None /\ pc' = "poll" /\ batch' = <<>>
  /\ UNCHANGED <<daemonVars, memVars, cachedH, reorgReq, caughtUp, fl, lb, toUndo, durVars, bookVars>>
ReorgStart ==
  /\ pc = "poll" /\ reorgReq # None
  /\ pc' = "flush" /\ fl' = [kind |-> "full", ret |-> "rg_calc"]
  /\ lb' = [start |-> mem.h - 1, count |-> 1]
  /\ behind' = (cachedH # None /\ mem.h < cachedH)    \* the server is not caught up with the daemon it last saw
  /\ UNCHANGED <<daemonVars, memVars, cachedH, batch, reorgReq, caughtUp, toUndo, durVars, commits, crashes, forced,
                 restarts, fresh, evs, shrunk, why, rgDepth, f7, f7hole>>
Die(reason) == pc' = "dead" /\ why' = reason /\ UNCHANGED <<batch, reorgReq, lb, toUndo, rgDepth>>
(* our block ids at heights start..start+count-1 as the headers file has them *)
OurIds(start, count) == SubSeq(fHdr, start + 1, start + count)
DiffPos(a, b) == IF \E k \in 1..Len(a) : a[k] # b[k] THEN (CHOOSE k \in 1..Len(a) : a[k] # b[k] /\ \A j \in 1..(k - 1) : a[j] = b[j]) - 1
                 ELSE Len(a)
ToUndo(ids) == toUndo' = ids /\ rgDepth' = Len(ids) /\ pc' = "rg_bk" /\ UNCHANGED <<batch, reorgReq, lb, why>>
ReorgCalc ==
  /\ pc = "rg_calc"
  /\ IF reorgReq >= 0
     THEN \* forced: the last reorgReq blocks
          /\ UNCHANGED evs
          /\ LET start == mem.h - reorgReq + 1 IN
             IF start < 0 THEN Die("range")       \* fs_block_hashes with a negative height: DBError escapes
             ELSE ToUndo(OurIds(start, reorgReq))
     ELSE IF lb.start > 0
     THEN \* one round of the doubling look-back against the daemon as it is now
          /\ Ev([e |-> "lookback", start |-> lb.start, count |-> lb.count])
          /\ IF lb.start + lb.count - 1 > Height(best) THEN Die("daemon")    \* daemon chain got shorter: DaemonError escapes
             ELSE LET ours == OurIds(lb.start, lb.count)
                      theirs == SubSeq(BestChain, lb.start + 1, lb.start + lb.count)
                      n == DiffPos(ours, theirs)
                  IN IF n > 0
                     THEN ToUndo(OurIds(lb.start + n, mem.h - (lb.start + n) + 1))
                     ELSE LET c2 == Min2(lb.count * 2, lb.start)
                          IN lb' = [start |-> lb.start - c2, count |-> c2]
                             /\ UNCHANGED <<pc, batch, reorgReq, toUndo, why, rgDepth>>
     ELSE \* reached the bottom: everything from lb.start up is undone
          /\ UNCHANGED evs
          /\ ToUndo(OurIds(Max2(lb.start, 0), mem.h - Max2(lb.start, 0) + 1))
  /\ UNCHANGED <<daemonVars, memVars, cachedH, caughtUp, fl, durVars, commits, crashes, forced, restarts, fresh,
                 shrunk, f7, f7hole, behind>>

(* backup_block: the in-memory part; the three commits of flush_backup follow *)
UndoRow(h) == { r \in undoT : r.h = h }
BackupTx(acc, t, h) ==
  \* acc = [c, d, ents (remaining undo entries), tch, uc, ok]
  LET outs == Outs(t)
      good == { k \in 1..Len(outs) : Spendable(outs[k], h) }
      RECURSIVE SpendOuts(_, _)
      SpendOuts(a, k) ==
        IF k > Len(outs) THEN a
        ELSE IF k \notin good THEN SpendOuts(a, k + 1)
        ELSE LET r == SpendIn(a.c, a.d, t, k - 1)
             IN SpendOuts([a EXCEPT !.c = r.c, !.d = r.d, !.tch = a.tch \cup {r.ent.s}, !.uc = a.uc - 1,
                                    !.ok = a.ok /\ r.ok], k + 1)
      a1 == SpendOuts(acc, 1)
      ins == TxIns(t)
      RECURSIVE Restore(_, _)
      Restore(a, k) ==      \* inputs in reverse order, entries consumed from the end
        IF k < 1 THEN a
        ELSE IF a.ents = <<>> THEN [a EXCEPT !.ok = FALSE]
        ELSE LET e == Last(a.ents)
             IN Restore([a EXCEPT !.ents = Front(a.ents), !.uc = a.uc + 1, !.tch = a.tch \cup {e.s},
                                  !.c = a.c \cup {[t |-> ins[k][1], i |-> ins[k][2], s |-> e.s, n |-> e.n, v |-> e.v]}],
                        k - 1)
  IN Restore(a1, Len(ins))
RECURSIVE BackupTxs(_, _, _)
BackupTxs(acc, txs, h) == IF txs = <<>> THEN acc ELSE BackupTxs(BackupTx(acc, Last(txs), h), Front(txs), h)

ReorgBackup ==
  /\ pc = "rg_bk"
  /\ IF toUndo = <<>>
     THEN /\ pc' = "poll" /\ reorgReq' = None /\ Ev([e |-> "backedup", h |-> mem.h])
          /\ UNCHANGED <<memVars, batch, lb, toUndo, why, rgDepth>>
     ELSE LET b == Last(toUndo) IN
          IF b # mem.tip THEN /\ pc' = "poll" /\ reorgReq' = None /\ toUndo' = <<>>
                              /\ UNCHANGED <<evs, memVars, batch, lb, why, rgDepth>>
          ELSE IF Height(b) = 0 \/ UndoRow(Height(b)) = {}
          THEN /\ Die(IF Height(b) = 0 THEN "genesis" ELSE "noundo") /\ UNCHANGED <<evs, memVars>>   \* assertion / ChainError escapes
          ELSE LET h == Height(b)
                   row == CHOOSE r \in UndoRow(h) : TRUE
                   acc == BackupTxs([c |-> cache, d |-> dels, ents |-> row.ents, tch |-> {}, uc |-> mem.uc, ok |-> TRUE],
                                    tree[b].txs, h)
               IN /\ acc.ok /\ acc.ents = <<>>
                  /\ cache' = acc.c /\ dels' = acc.d
                  /\ mem' = [mem EXCEPT !.h = h - 1, !.tip = tree[b].parent, !.uc = acc.uc,
                                        !.txc = mem.txc - Len(tree[b].txs)]
                  /\ txcounts' = Front(txcounts)
                  /\ touched' = touched \cup acc.tch
                  /\ toUndo' = Front(toUndo)
                  /\ pc' = "bk_hist" /\ fsH' = h - 1          \* backup_fs: pointers only
                  \* (the real backup_block returns after flush_backup has committed: the scalars are those of that instant)
                  /\ Ev([e |-> "backup", b |-> b, st |-> Scal(mem', {}, {}, unfl, <<>>, hfc + 1, h - 1, h - 1)])
                  /\ UNCHANGED <<unfl, pend, pendUndo, dbst, hfc, batch, reorgReq, lb, why, rgDepth>>
  /\ UNCHANGED <<daemonVars, cachedH, caughtUp, fl, durVars, commits, crashes, forced, restarts, fresh, shrunk, f7, f7hole, behind>>
(* History.backup: truncate the rows of the touched scripts at tx_count, state in the batch *)
Trunc(nums, txc) == SelectSeq(nums, LAMBDA n : n < txc)
BackupHist ==
  /\ pc = "bk_hist" /\ pc' = "bk_utxo"
  /\ hfc' = hfc + 1 /\ hrec' = [fc |-> hfc + 1]
  /\ hist' = { r \in { IF x.s \in touched THEN [x EXCEPT !.nums = Trunc(x.nums, mem.txc)] ELSE x : x \in hist } :
                 r.nums # <<>> \/ r.s \notin touched }
  /\ UNCHANGED <<daemonVars, mem, cache, dels, unfl, pend, pendUndo, txcounts, fsH, dbst, touched, cachedH, batch,
                 reorgReq, caughtUp, fl, lb, toUndo, fHdr, fCnt, fHsh, hT, uT, undoT, rec, bookVars>>
BackupUtxo ==
  /\ pc = "bk_utxo" /\ pc' = "chk" /\ fl' = [kind |-> "none", ret |-> "rg_bk"]
  /\ ApplyUtxoBatch
  /\ UNCHANGED <<daemonVars, mem, unfl, pend, txcounts, fsH, hfc, touched, cachedH, batch, reorgReq, caughtUp, lb,
                 toUndo, fHdr, fCnt, fHsh, hist, hrec, crashes, forced, restarts, fresh, evs,
                 shrunk, why, rgDepth, f7hole, behind>>
  /\ f7' = FALSE          \* the interrupted rollback has been redone
(* the states right after a durable change are where the views are compared with the oracle *)
Check ==
  /\ pc = "chk" /\ pc' = fl.ret
  /\ UNCHANGED <<daemonVars, memVars, cachedH, batch, reorgReq, caughtUp, fl, lb, toUndo, durVars, bookVars>>

(* ============================== crash and restart ============================== *)
Crash ==
  /\ crashes < MaxCrashes /\ pc \notin {"down", "dead"}
  /\ crashes' = crashes + 1 /\ pc' = "down"
  /\ Ev([e |-> "crash", at |-> pc])
  /\ f7' = (pc = "bk_utxo")          \* after the history rollback commit, before the UTXO rollback commit
  /\ UNCHANGED <<daemonVars, memVars, cachedH, batch, reorgReq, caughtUp, fl, lb, toUndo, durVars, commits, forced,
                 restarts, fresh, shrunk, why, rgDepth, f7hole, behind>>
(* a file write torn by the crash: only a prefix of the pending data reaches the file *)
CrashTorn ==
  /\ crashes < MaxCrashes /\ crashes' = crashes + 1 /\ pc' = "down"
  /\ \/ /\ pc = "fl_hdr" /\ \E k \in 0..(Len(pend) - 1) : fHdr' = Overwrite(fHdr, fsH + 1, SubSeq(pend, 1, k))
        /\ UNCHANGED <<fCnt, fHsh>>
     \/ /\ pc = "fl_cnt"
        /\ \E k \in 0..(Len(txcounts) - fsH - 2) : fCnt' = Overwrite(fCnt, fsH + 1, SubSeq(txcounts, fsH + 2, fsH + 1 + k))
        /\ UNCHANGED <<fHdr, fHsh>>
     \/ /\ pc = "fl_hsh"
        /\ \E k \in 0..(Len(PendTxs) - 1) :
             fHsh' = Overwrite(fHsh, IF fsH >= 0 THEN txcounts[fsH + 1] ELSE 0, SubSeq(PendTxs, 1, k))
        /\ UNCHANGED <<fHdr, fCnt>>
  /\ Ev([e |-> "crash", at |-> pc])
  /\ UNCHANGED <<daemonVars, memVars, cachedH, batch, reorgReq, caughtUp, fl, lb, toUndo, hT, uT, undoT, rec, hist, hrec,
                 commits, forced, restarts, fresh, auxVars>>
(* _open_dbs: read the state record, clear excess history and undo rows, read tx counts *)
Reopen ==
  /\ pc \in {"down", "dead"}
  /\ (pc = "dead" => restarts < MaxRestarts)
  /\ restarts' = IF pc = "dead" THEN restarts + 1 ELSE restarts
  /\ LET excess == hrec.fc > rec.fc
         fc2 == IF excess THEN rec.fc ELSE hrec.fc
     IN /\ hist' = IF excess THEN { r \in hist : r.f <= rec.fc } ELSE hist
        /\ hrec' = [fc |-> fc2] /\ hfc' = fc2
        /\ mem' = [rec EXCEPT !.fc = fc2] /\ dbst' = [rec EXCEPT !.fc = fc2]
  /\ undoT' = { r \in undoT : r.h >= rec.h - ReorgLimit + 1 }
  /\ txcounts' = SubSeq(fCnt, 1, rec.h + 1)
  /\ fsH' = rec.h
  /\ cache' = {} /\ dels' = {} /\ unfl' = <<>> /\ pend' = <<>> /\ pendUndo' = <<>> /\ touched' = {}
  /\ cachedH' = None /\ batch' = <<>> /\ reorgReq' = None /\ caughtUp' = FALSE /\ pc' = "chk"
  /\ fl' = [kind |-> "none", ret |-> "poll"] /\ lb' = [start |-> 0, count |-> 0] /\ toUndo' = <<>>
  /\ Ev([e |-> "reopen", h |-> rec.h])
  \* known finding F7: the block whose history was rolled back is still on the daemon's chain
  /\ f7hole' = (f7hole \/ (f7 /\ rec.tip \in Range(BestChain))) /\ f7' = f7
  /\ fresh' = FALSE
  /\ UNCHANGED <<daemonVars, fHdr, fCnt, fHsh, hT, uT, rec, commits, crashes, forced, shrunk, why, rgDepth, behind>>

Next == Mine \/ Fork \/ Switch \/ Poll \/ Advance \/ FlushEnter \/ FlushHdr \/ FlushCnt \/ FlushHsh \/ FlushHist
        \/ FlushUtxo \/ CaughtUp \/ CaughtUp2 \/ Force \/ AdvBreak \/ ReorgStart \/ ReorgCalc \/ ReorgBackup
        \/ BackupHist \/ BackupUtxo \/ Check \/ Crash \/ CrashTorn \/ Reopen
Spec == Init /\ [][Next]_vars

(* ================================== the views ================================== *)
(* the chain the index believes in: block ids by height from the headers file *)
OurChain == SubSeq(fHdr, 1, rec.h + 1)
Stable == pc = "chk"
(* all_utxos / lookup_utxos: u-rows resolved through the hashes file and tx counts *)
DbUtxos == { [t |-> fHsh[u.n + 1], i |-> u.i, s |-> u.s, v |-> u.v, h |-> HeightOfNum(SubSeq(fCnt, 1, rec.h + 1), u.n)] : u \in uT }
RowsOf(s) == { r \in hist : r.s = s }
RECURSIVE CatRows(_)
CatRows(R) == IF R = {} THEN <<>>
              ELSE LET r == CHOOSE r \in R : \A q \in R : r.f <= q.f IN r.nums \o CatRows(R \ {r})
DbHistNums(s) == CatRows(RowsOf(s))
(* the part a reader can resolve: tx numbers below the committed tx count *)
DbHist(s) == LET nums == SelectSeq(DbHistNums(s), LAMBDA n : n < rec.txc)
             IN [k \in 1..Len(nums) |-> <<fHsh[nums[k] + 1], HeightOfNum(SubSeq(fCnt, 1, rec.h + 1), nums[k])>>]

(* ================================ properties ================================ *)
(* C01 *)
UtxoViewCorrect ==
  (Stable /\ rec.h >= 0) =>
    /\ DbUtxos = UtxoAt(OurChain)
    /\ rec.uc = Cardinality(uT)
    /\ { [p |-> r.p, i |-> r.i, n |-> r.n, s |-> r.s] : r \in hT }
         = { [p |-> Pfx(fHsh[u.n + 1]), i |-> u.i, n |-> u.n, s |-> u.s] : u \in uT }
SpendResolves == NextBlockSpends
(* C02 *)
HistCorrect ==
  (Stable /\ rec.h >= 0) =>
    /\ \A s \in Scripts : DbHist(s) = HistAt(OurChain, s)
    /\ SubSeq(fHsh, 1, rec.txc) = [k \in 1..rec.txc |-> TxSeq(OurChain)[k][1]]
    /\ rec.txc = Len(TxSeq(OurChain))
(* rows never hold tx numbers at or beyond what memory has advanced to, in order, no duplicates *)
HistOrdered ==
  \A s \in Scripts : LET nums == DbHistNums(s) IN \A j, k \in 1..Len(nums) : j < k => nums[j] < nums[k]
(* the index follows a chain of the tree *)
OurChainIsChain ==
  (Stable /\ rec.h >= 0) => /\ Len(fHdr) >= rec.h + 1
                            /\ OurChain[1] = 0
                            /\ \A k \in 2..(rec.h + 1) : tree[OurChain[k]].parent = OurChain[k - 1]
                            /\ rec.tip = OurChain[rec.h + 1]
(* C03: a catch-up that started with the daemon's chain longer than the index, the daemon unchanged since, ends   *)
(* on the daemon's chain (fresh is set by the poll that saw the longer chain, reset by any daemon change)         *)
CaughtUpFresh ==
  (pc = "cu2" /\ mem.h = Height(best) /\ fresh) => (rec.h = mem.h /\ OurChain = BestChain)
(* C04 *)
RecoveredCommitted == pc = "chk" => rec.h \in commits
(* C05 (with the known finding F7 carved out by its signature) *)
(* f7: a rollback was cut between its history commit and its UTXO commit and has not been redone yet *)
HistCorrectF7 == f7 \/ f7hole \/ HistCorrect
(* violated exactly when the known finding F7 is still present in the design *)
F7Gone == ~((f7 \/ f7hole) /\ Stable /\ rec.h >= 0 /\ ~HistCorrect)
(* C15 *)
WindowPresent ==
  (pc = "cu2" /\ ~shrunk) =>
     \A h \in 1..rec.h : h > rec.h - ReorgLimit => \E r \in undoT : r.h = h /\ r.b = OurChain[h + 1]
PrunedOnOpen ==
  (pc = "chk" /\ cachedH = None /\ rec.h >= 0) => \A r \in undoT : r.h >= rec.h - ReorgLimit + 1
(* a reorg that the code itself sized at no more than the limit never dies for lack of undo information *)
UndoAvailable == (pc = "dead" /\ why = "noundo") => (rgDepth > ReorgLimit \/ shrunk \/ behind)
=============================================================================
