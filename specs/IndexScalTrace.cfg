SPECIFICATION Spec
INVARIANT ScalarsAgree
CHECK_DEADLOCK FALSE
