--------------------------- MODULE IndexScalTrace ---------------------------
(* Implementation-level conformance of the Index replays: the scenarios TLC exports from Index.tla carry, with *)
(* every advance / backup event, the scalars of the model's process state at that instant (height in *)
(* memory, tx and UTXO counts, sizes of the UTXO cache, of the pending deletes, of the unflushed history and of *)
(* the pending undo records, history flush count, DB state height, files height); the real run records the     *)
(* same scalars when advance_block / backup_block return.  Pairs are matched in order per kind.  *)
(* A mismatch is MODEL-DRIFT (the model and the code disagree about the mechanics), not a violation.           *)
EXTENDS Integers, Sequences, Json, IOUtils, TLC
Recs == JsonDeserialize(IOEnv.TRACE_FILE)
VARIABLES tid, l
vars == <<tid, l>>
Init == tid \in 1..Len(Recs) /\ l = 1
Next == UNCHANGED vars
Spec == Init /\ [][Next]_vars
R == Recs[tid]
(* exp and got are <<memh, txc, uc, nc, nd, nu, npu, hfc, dbh, fsh>> *)
ScalarsAgree == R.exp = R.got
=============================================================================
