SPECIFICATION Spec
INVARIANT ChainIsPath
INVARIANT UtxoViewCorrect
INVARIANT HistCorrect
INVARIANT TxNumMap
INVARIANT HeaderProofs
INVARIANT RawRowsClean
INVARIANT CaughtUpFresh
INVARIANT FinalAtTip
INVARIANT RecoveredCommitted
INVARIANT WindowPresent
INVARIANT PrunedOnOpen
INVARIANT UndoAvailable
INVARIANT NoUnexpectedDeath
INVARIANT NotStuck
INVARIANT KeepsFinishedWork
INVARIANT ToolPreserves
CHECK_DEADLOCK FALSE
