------------------------------ MODULE IndexTrace ------------------------------
(* Property-level validation of views recorded from the real BlockProcessor / DB /        *)
(* History through the public read API (all_utxos, lookup_utxos, limited_history,         *)
(* fs_tx_hash, fs_tx_hashes_at_blockheight, read_headers, fs_block_hashes, state, undo     *)
(* keys).  Every recorded view must equal what the oracle (ChainOracle.tla) derives from   *)
(* the chain the index claims to be on, and that chain must be the daemon's at catch-up.  *)
(* Decides C01, C02, C03, C04, C05, C15 (and the reopen clause of C06).                   *)
EXTENDS ChainOracle, Json, IOUtils, TLC

Traces == JsonDeserialize(IOEnv.TRACE_FILE)
VARIABLES tid, l
vars == <<tid, l>>
T == Traces[tid]
S == T.steps[l]
Init == tid \in 1..Len(Traces) /\ l = 1
Next == l < Len(T.steps) /\ l' = l + 1 /\ UNCHANGED tid
Spec == Init /\ [][Next]_vars

NBlocks == Len(T.tree)
Tree == [b \in 0..(NBlocks - 1) |-> [parent |-> T.tree[b + 1][1], height |-> T.tree[b + 1][2], txs |-> T.tree[b + 1][3],
                                     cb |-> [k \in 1..Len(T.tree[b + 1][4]) |-> [s |-> T.tree[b + 1][4][k][1], v |-> T.tree[b + 1][4][k][2]]]]]
IsView == S.ev \in {"view", "flushed", "backedup", "caughtup", "final", "reopen", "stopped"}
Chain == S.hdrs
Valid == IsView /\ S.h >= 0 /\ \A k \in 1..Len(Chain) : Chain[k] \in 0..(NBlocks - 1)
O == FoldTxsAt(Tree, TxSeqIn(Tree, Chain), T.activation)
Txs == TxSeqIn(Tree, Chain)
Pair(x) == <<x[1], x[2]>>

(* the index is on a chain of the daemon's block tree *)
ChainIsPath ==
  (IsView /\ S.h >= 0) =>
    /\ Len(Chain) = S.h + 1
    /\ \A k \in 1..Len(Chain) : Chain[k] \in 0..(NBlocks - 1)
    /\ Chain[1] = 0
    /\ \A k \in 2..Len(Chain) : Tree[Chain[k]].parent = Chain[k - 1]
    /\ S.tip = Chain[Len(Chain)]
(* C01 *)
UtxoViewCorrect ==
  Valid =>
    /\ ToSet(S.utxos) = { <<e.t, e.i, e.s, e.v, e.h>> : e \in O.U }
    /\ Len(S.utxos) = Cardinality(O.U)                       \* each exactly once
    /\ S.uc = Cardinality(O.U)
    /\ ToSet(S.look) = { <<e.t, e.i, e.s, e.v>> : e \in O.U } \* lookup_utxos finds exactly the unspent ones
    /\ Len(S.look) = Cardinality(O.U)
    /\ S.cs = S.csx
(* C02 *)
HistCorrect ==
  Valid =>
    /\ \A k \in 1..Len(S.hist) : S.hist[k][2] = O.H[S.hist[k][1]]
    /\ { S.hist[k][1] : k \in 1..Len(S.hist) } = Scripts
    /\ \A k \in 1..Len(S.lims) :
         LET full == O.H[S.lims[k][1]]
             lim == S.lims[k][2]
         IN S.lims[k][3] = SubSeq(full, 1, IF lim < Len(full) THEN lim ELSE Len(full))
(* header proofs against a checkpoint (the header merkle cache survives reorganisations): computed and folded by the
   harness from the recorded headers; 1 = every probed (checkpoint, height) pair folds to the root of the current hashes *)
HeaderProofs == Valid => S.hproof = 1
TxNumMap ==
  Valid =>
    /\ S.txc = Len(Txs)
    /\ S.nums = Txs
    /\ Len(S.byh) = S.h + 1
    /\ \A k \in 1..Len(S.byh) : S.byh[k] = Tree[Chain[k]].txs
(* C01 / C03: the raw rows of both databases are exactly the semantic rows of the oracle - nothing hidden remains *)
NonGenInputs(b) == LET RECURSIVE Cnt(_)
                       Cnt(k) == IF k = 0 THEN 0 ELSE Len(TxIns(Tree[b].txs[k])) + Cnt(k - 1)
                   IN Cnt(Len(Tree[b].txs))
RawRowsClean ==
  Valid =>
    /\ ToSet(S.rawu) = { <<e.t, e.i, e.s, e.v>> : e \in O.U } /\ Len(S.rawu) = Cardinality(O.U)
    /\ ToSet(S.rawh) = { <<e.t, e.i, e.s, 1>> : e \in O.U } /\ Len(S.rawh) = Cardinality(O.U)
    \* history rows: known scripts only, strictly increasing across a script's rows in key order, and (when no
    \* history-only flush is ahead) no tx number at or beyond the committed tx count
    /\ \A k \in 1..Len(S.rawhist) : S.rawhist[k][1] \in Scripts /\ S.rawhist[k][3] # <<>>
    /\ (~S.ahead => \A k \in 1..Len(S.rawhist) : \A j \in 1..Len(S.rawhist[k][3]) : S.rawhist[k][3][j] < S.txc)
    \* undo rows of the blocks inside the reorg window hold one 24-byte entry per spent input of that block
    \* (rows above the tip or below the window are stale leftovers that nothing reads).  The code keeps undo
    \* information relative to the DAEMON's height as it knew it when the block was advanced: only once the index sits on
    \* the daemon's tip (and the daemon's chain never got shorter) is the window of the index the window the rows were
    \* written for.  While the index is behind, a row at or below its own height may still be the orphaned block's: it is
    \* below the daemon's window, nothing can read it, and the next start prunes it (PrunedOnOpen).
    /\ (S.ev \in {"caughtup", "final"} /\ ~S.shrunk /\ S.h + 1 = Len(S.best)) =>
         \A k \in 1..Len(S.undolen) : (S.undolen[k][1] <= S.h /\ S.undolen[k][1] > S.h - T.limit /\ S.undolen[k][1] >= 0) =>
            (S.undolen[k][3] = 0 /\ S.undolen[k][2] = NonGenInputs(Chain[S.undolen[k][1] + 1]))
(* C03 / resume clause of C04, C05: a catch-up that saw the daemon's longer chain ends on it *)
CaughtUpFresh ==
  (IsView /\ S.ev \in {"caughtup", "final"} /\ S.fresh /\ S.h + 1 = Len(S.best)) => Chain = S.best
FinalAtTip ==
  (IsView /\ S.ev = "final" /\ S.fresh) => S.h + 1 = Len(S.best)
(* C04 *)
RecoveredCommitted == (IsView /\ S.ev = "reopen") => S.h \in ToSet(S.commits)
(* C15 *)
WindowPresent ==
  (IsView /\ S.ev \in {"caughtup", "final"} /\ ~S.shrunk /\ S.h >= 1) =>
     \A h \in 1..S.h : h > S.h - T.limit => h \in ToSet(S.undo)
PrunedOnOpen ==
  (IsView /\ S.ev = "reopen" /\ S.h >= 0) => \A k \in 1..Len(S.undo) : S.undo[k] >= S.h - T.limit + 1
UndoAvailable ==
  (S.ev = "died" /\ S.why = "noundo") => (S.need > T.limit \/ S.shrunk \/ S.behind)
(* C14: while the compaction tool works on the database every history stays what it was *)
ToolPreserves ==
  (S.ev = "toolview" /\ S.h >= 0) =>
    LET o == FoldTxsAt(Tree, TxSeqIn(Tree, S.hdrs), T.activation)
    IN \A k \in 1..Len(S.hist) : S.hist[k][2] = o.H[S.hist[k][1]]
(* C06: after a shutdown the stored height is the height in memory when the task returned, and   *)
(* includes every block completed before the request (never more than it while undoing blocks) *)
KeepsFinishedWork ==
  (IsView /\ S.ev = "stopped") => /\ S.h = S.memend
                                  /\ (IF S.inreorg THEN S.h <= S.memh ELSE S.h >= S.memh)
(* C01 SpendResolves and the code's own assertions: the processing task only ever dies for  *)
(* the reasons the environment can cause                                                  *)
NoUnexpectedDeath == S.ev = "died" => S.why \in {"noundo", "daemon", "genesis", "range"}
NotStuck == S.ev # "stuck"
=============================================================================
