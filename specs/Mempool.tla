------------------------------- MODULE Mempool -------------------------------
(* electrumx/server/mempool.py: _refresh_hashes, _process_mempool, _fetch_and_accept,    *)
(* _accept_transactions with every suspension point as its own step, against a daemon    *)
(* whose mempool and chain change between any two steps and a block processor whose      *)
(* flush makes the new height visible (DbAssign) before the UTXO tables are committed     *)
(* (DbCommit).  The confirmed side is the oracle of ChainOracle.tla (what C01 establishes *)
(* for the index).                                                                       *)
EXTENDS ChainOracle, TLC, Json

CONSTANTS MSlots,       \* slots that can be in the mempool / be mined in this configuration
          ChunkSize,    \* hashes per fetch task (200 in the code)
          MaxBlocks, MaxRefresh, MaxEvents, Activation, AllowReorg,
          PreBlock,     \* slots of one block already mined and indexed at the start ({}: none)
          Export

None == -2
PreChain == IF PreBlock = {} THEN <<>> ELSE <<SetToSortSeq(PreBlock, <)>>
VARIABLES tree, nb, best, pool, cachedH,          \* daemon (+ the cached height every caller updates)
          dbTip, dbData,                          \* index: visible state / committed UTXO tables (block ids)
          txs, hx,                                \* MemPool.txs, MemPool.hashXs
          pc, rHeight, rAll, touched, chunks, defd, unsp,
          disturbed, lastView, handed, nrefresh, nevents, err, exactDue, tcOk, evs
vars == <<tree, nb, best, pool, cachedH, dbTip, dbData, txs, hx, pc, rHeight, rAll, touched, chunks, defd, unsp,
          disturbed, lastView, handed, nrefresh, nevents, err, exactDue, tcOk, evs>>
View == <<tree, nb, best, pool, cachedH, dbTip, dbData, txs, hx, pc, rHeight, rAll, touched, chunks, defd, unsp,
          disturbed, lastView, handed, nrefresh, nevents, err, exactDue, tcOk>>

MinerCb == <<[s |-> Miner, v |-> 50]>>
Height(b) == tree[b].height
ChainOf(b) == ChainOfIn(tree, b)
Fold(b) == FoldTxsAt(tree, TxSeqIn(tree, ChainOf(b)), Activation)
UtxoOf(b) == Fold(b).U
Outs(t) == OutsIn(tree, t)
Ev(e) == /\ evs' = IF Export THEN Append(evs, e) ELSE evs
Log(e) == Ev(e) /\ nevents' = nevents
Env(e) == Ev(e) /\ nevents' = nevents + 1 /\ nevents < MaxEvents

Empty == [t \in {} |-> 0]
AscSeq(S) == SetToSortSeq(S, <)
Init ==
  /\ tree = [b \in 0..Len(PreChain) |->
               IF b = 0 THEN [parent |-> -1, height |-> 0, txs |-> <<CB>>, cb |-> Funding]
               ELSE [parent |-> b - 1, height |-> b, txs |-> <<CB + b>> \o PreChain[b], cb |-> MinerCb]]
  /\ nb = Len(PreChain) /\ best = Len(PreChain) /\ pool = {} /\ cachedH = Len(PreChain)
  /\ dbTip = Len(PreChain) /\ dbData = Len(PreChain)
  /\ txs = Empty /\ hx = [s \in {} |-> {}]
  /\ pc = "idle" /\ rHeight = 0 /\ rAll = {} /\ touched = {} /\ chunks = <<>> /\ defd = {} /\ unsp = {}
  /\ disturbed = FALSE /\ lastView = {} /\ handed = {} /\ nrefresh = 0 /\ nevents = 0 /\ err = "" /\ exactDue = FALSE /\ tcOk = TRUE /\ evs = <<>>

(* ------------------------- true data of a transaction ------------------------- *)
Prevouts(t) == TxIns(t)                                       \* regular slots have no generation-like input
OutPairs(t) == [k \in 1..Len(Outs(t)) |-> <<Outs(t)[k].s, Outs(t)[k].v>>]
TrueIn(t) == [k \in 1..Len(TxIns(t)) |-> LET o == Outs(TxIns(t)[k][1])[TxIns(t)[k][2] + 1] IN <<o.s, o.v>>]
SumV(ps) == LET RECURSIVE S(_)
                S(k) == IF k = 0 THEN 0 ELSE ps[k][2] + S(k - 1)
            IN S(Len(ps))
FeeOf(inp, outp) == IF SumV(inp) - SumV(outp) > 0 THEN SumV(inp) - SumV(outp) ELSE 0
ScriptsOf(rec) == { rec.inp[k][1] : k \in 1..Len(rec.inp) } \cup { rec.outp[k][1] : k \in 1..Len(rec.outp) }

(* ------------------------------- daemon events ------------------------------- *)
Busy == pc \notin {"idle", "sleep"}
Disturb == disturbed' = (disturbed \/ Busy) /\ exactDue' = FALSE /\ UNCHANGED tcOk
InChain(t) == \E k \in 1..Len(TxSeqIn(tree, ChainOf(best))) : TxSeqIn(tree, ChainOf(best))[k][1] = t
(* outputs available to a new mempool tx: confirmed unspent, or created by a pool tx; not spent by a pool tx *)
Avail(t) ==
  /\ \A k \in 1..Len(TxIns(t)) :
       \/ \E e \in UtxoOf(best) : <<e.t, e.i>> = TxIns(t)[k]
       \/ TxIns(t)[k][1] \in pool
  /\ ~\E u \in pool : \E j \in 1..Len(TxIns(u)), k \in 1..Len(TxIns(t)) : TxIns(u)[j] = TxIns(t)[k]
Arrive ==
  /\ \E t \in MSlots \ pool : ~InChain(t) /\ Avail(t) /\ pool' = pool \cup {t} /\ Env([e |-> "arrive", t |-> t, pool |-> AscSeq(pool')])
  /\ Disturb
  /\ UNCHANGED <<tree, nb, best, cachedH, dbTip, dbData, txs, hx, pc, rHeight, rAll, touched, chunks, defd, unsp,
                 lastView, handed, nrefresh, err>>
RECURSIVE Desc(_, _)
Desc(P, S) == LET more == { u \in P \ S : \E k \in 1..Len(TxIns(u)) : TxIns(u)[k][1] \in S }
              IN IF more = {} THEN S ELSE Desc(P, S \cup more)
Evict ==
  /\ \E t \in pool : pool' = pool \ Desc(pool, {t}) /\ Env([e |-> "evict", t |-> t, pool |-> AscSeq(pool')])
  /\ Disturb
  /\ UNCHANGED <<tree, nb, best, cachedH, dbTip, dbData, txs, hx, pc, rHeight, rAll, touched, chunks, defd, unsp,
                 lastView, handed, nrefresh, err>>
(* what a daemon keeps in its mempool on top of UTXO set U: every input is confirmed-unspent or made by a kept tx *)
RECURSIVE Consistent(_, _)
Consistent(P, U) ==
  LET bad == { t \in P : \E k \in 1..Len(TxIns(t)) :
                 /\ ~\E e \in U : <<e.t, e.i>> = TxIns(t)[k]
                 /\ TxIns(t)[k][1] \notin P }
  IN IF bad = {} THEN P ELSE Consistent(P \ bad, U)
(* a block confirms a dependency-closed part of the pool *)
Mine ==
  /\ nb < MaxBlocks + Len(PreChain)
  /\ \E S \in SUBSET pool :
       /\ CanMineAllAt(tree, TxSeqIn(tree, ChainOf(best)), AscSeq(S), Height(best) + 1, Activation)
       /\ tree' = [b \in 0..(nb + 1) |-> IF b = nb + 1
                     THEN [parent |-> best, height |-> Height(best) + 1, txs |-> <<CB + nb + 1>> \o AscSeq(S), cb |-> MinerCb]
                     ELSE tree[b]]
       /\ pool' = Consistent(pool \ S, FoldTxsAt(tree', TxSeqIn(tree', ChainOfIn(tree', nb + 1)), Activation).U)
       /\ Env([e |-> "mine", txs |-> AscSeq(S), pool |-> AscSeq(pool')])
  /\ nb' = nb + 1 /\ best' = nb + 1
  /\ Disturb
  /\ UNCHANGED <<cachedH, dbTip, dbData, txs, hx, pc, rHeight, rAll, touched, chunks, defd, unsp, lastView, handed,
                 nrefresh, err>>
(* the daemon drops its tip block (its transactions return to the mempool) *)
Reorg ==
  /\ AllowReorg /\ best > Len(PreChain)
  /\ best' = tree[best].parent
  /\ pool' = Consistent(pool \cup { tree[best].txs[k] : k \in 2..Len(tree[best].txs) }, UtxoOf(tree[best].parent))
  /\ Env([e |-> "reorg", pool |-> AscSeq(pool')])
  /\ Disturb
  /\ UNCHANGED <<tree, nb, cachedH, dbTip, dbData, txs, hx, pc, rHeight, rAll, touched, chunks, defd, unsp, lastView,
                 handed, nrefresh, err>>

(* ------------------------------ block processor ------------------------------ *)
(* next block towards the daemon's tip (forward or one block back) becomes visible, then is committed *)
NextDb == IF dbTip \in { ChainOf(best)[k] : k \in 1..Len(ChainOf(best)) }
          THEN IF dbTip = best THEN dbTip ELSE ChainOf(best)[Height(dbTip) + 2]
          ELSE tree[dbTip].parent
DbAssign ==
  /\ dbTip = dbData /\ NextDb # dbTip
  /\ dbTip' = NextDb /\ cachedH' = Height(best)
  /\ Env([e |-> "dbassign", to |-> NextDb]) /\ Disturb
  /\ UNCHANGED <<tree, nb, best, pool, dbData, txs, hx, pc, rHeight, rAll, touched, chunks, defd, unsp, lastView,
                 handed, nrefresh, err>>
DbCommit ==
  /\ dbTip # dbData /\ dbData' = dbTip
  /\ Log([e |-> "dbcommit"]) /\ Disturb
  /\ UNCHANGED <<tree, nb, best, pool, cachedH, dbTip, txs, hx, pc, rHeight, rAll, touched, chunks, defd, unsp, lastView,
                 handed, nrefresh, err>>

(* --------------------------------- refresh --------------------------------- *)
RList ==
  /\ pc = "idle" /\ nrefresh < MaxRefresh
  /\ rHeight' = cachedH /\ rAll' = pool /\ pc' = "recheck" /\ disturbed' = FALSE /\ exactDue' = FALSE /\ UNCHANGED tcOk
  /\ Log([e |-> "list"])
  /\ UNCHANGED <<tree, nb, best, pool, cachedH, dbTip, dbData, txs, hx, touched, chunks, defd, unsp, lastView, handed,
                 nrefresh, err>>
RRecheck ==
  /\ pc = "recheck" /\ cachedH' = Height(best)
  /\ pc' = IF rHeight = Height(best) THEN "process" ELSE "idle"
  /\ Log([e |-> "recheck"])
  /\ UNCHANGED <<tree, nb, best, pool, dbTip, dbData, txs, hx, rHeight, rAll, touched, chunks, defd, unsp, disturbed,
                 lastView, handed, nrefresh, err, exactDue, tcOk>>
(* remove one vanished tx from txs / hashXs; "error" mirrors the KeyError the code would raise *)
RECURSIVE RemoveAll(_, _, _, _)
RemoveAll(gone, T, H, tch) ==
  IF gone = {} THEN [T |-> T, H |-> H, tch |-> tch, ok |-> TRUE]
  ELSE LET t == CHOOSE x \in gone : TRUE
           ss == ScriptsOf(T[t])
       IN IF \E s \in ss : s \notin DOMAIN H \/ t \notin H[s]
          THEN [T |-> T, H |-> H, tch |-> tch, ok |-> FALSE]
          ELSE LET H1 == [s \in DOMAIN H |-> IF s \in ss THEN H[s] \ {t} ELSE H[s]]
                   H2 == [s \in { x \in DOMAIN H1 : H1[x] # {} } |-> H1[s]]
               IN RemoveAll(gone \ {t}, [x \in (DOMAIN T) \ {t} |-> T[x]], H2, tch \cup ss)
(* chunks of the new hashes, in an arbitrary order (set iteration order) *)
RECURSIVE Chunked(_)
Chunked(s) == IF s = <<>> THEN <<>>
              ELSE <<[hashes |-> SubSeq(s, 1, IF ChunkSize < Len(s) THEN ChunkSize ELSE Len(s)), cpc |-> "fetch",
                      raw |-> {}, foundH |-> {}, umap |-> {}]>>
                   \o Chunked(SubSeq(s, ChunkSize + 1, Len(s)))
Orders(S) == { s \in [1..Cardinality(S) -> S] : \A i, j \in 1..Cardinality(S) : i # j => s[i] # s[j] }
RProcess ==
  /\ pc = "process"
  /\ IF rHeight # Height(dbTip)
     THEN /\ pc' = "sleep" /\ Log([e |-> "dbsync"])          \* DBSyncError: wait and try again
          /\ UNCHANGED <<txs, hx, touched, chunks, defd, unsp, err>>
     ELSE LET r == RemoveAll((DOMAIN txs) \ rAll, txs, hx, touched)
              new == rAll \ DOMAIN r.T
          IN /\ txs' = r.T /\ hx' = r.H /\ touched' = r.tch
             /\ err' = IF r.ok THEN err ELSE "KeyError in removal"
             /\ defd' = {} /\ unsp' = {}
             /\ IF new = {} THEN pc' = "handover" /\ chunks' = <<>> /\ Log([e |-> "process", order |-> <<>>])
                ELSE \E ord \in Orders(new) : chunks' = Chunked(ord) /\ pc' = "chunks" /\ Log([e |-> "process", order |-> ord])
  /\ UNCHANGED <<tree, nb, best, pool, cachedH, dbTip, dbData, rHeight, rAll, disturbed, lastView, handed, nrefresh, exactDue, tcOk>>

SetChunk(c, rec) == chunks' = [chunks EXCEPT ![c] = rec]
(* getrawtransactions: a tx that left the daemon's mempool meanwhile comes back as None *)
CFetch(c) ==
  /\ pc = "chunks" /\ chunks[c].cpc = "fetch"
  /\ SetChunk(c, [chunks[c] EXCEPT !.cpc = "lookupH", !.raw = { t \in Range(chunks[c].hashes) : t \in pool }])
  /\ Log([e |-> "fetch", c |-> c])
  /\ UNCHANGED <<tree, nb, best, pool, cachedH, dbTip, dbData, txs, hx, pc, rHeight, rAll, touched, defd, unsp, disturbed,
                 lastView, handed, nrefresh, err, exactDue, tcOk>>
Wanted(c) == { p \in UNION { Range(Prevouts(t)) : t \in chunks[c].raw } : p[1] \notin rAll }
(* lookup_utxos, first job: the h-table (committed data) *)
CLookupH(c) ==
  /\ pc = "chunks" /\ chunks[c].cpc = "lookupH"
  /\ SetChunk(c, [chunks[c] EXCEPT !.cpc = "lookupV",
                  !.foundH = { p \in Wanted(c) : \E e \in UtxoOf(dbData) : <<e.t, e.i>> = p }])
  /\ Log([e |-> "lookuph", c |-> c])
  /\ UNCHANGED <<tree, nb, best, pool, cachedH, dbTip, dbData, txs, hx, pc, rHeight, rAll, touched, defd, unsp, disturbed,
                 lastView, handed, nrefresh, err, exactDue, tcOk>>
(* second job: the u-table, possibly after another flush *)
CLookupV(c) ==
  /\ pc = "chunks" /\ chunks[c].cpc = "lookupV"
  /\ SetChunk(c, [chunks[c] EXCEPT !.cpc = "accept",
                  !.umap = { p \in chunks[c].foundH : \E e \in UtxoOf(dbData) : <<e.t, e.i>> = p }])
  /\ Log([e |-> "lookupv", c |-> c])
  /\ UNCHANGED <<tree, nb, best, pool, cachedH, dbTip, dbData, txs, hx, pc, rHeight, rAll, touched, defd, unsp, disturbed,
                 lastView, handed, nrefresh, err, exactDue, tcOk>>
(* _accept_transactions over a sequence of tx ids; acc = [T, H, tch, defd, unsp] *)
AcceptOne(acc, t, umap) ==
  LET ins == Prevouts(t)
      Resolvable(p) == p \in umap \/ p[1] \in DOMAIN acc.T
      Pair(p) == IF p \in umap THEN LET o == Outs(p[1])[p[2] + 1] IN <<o.s, o.v>>
                 ELSE acc.T[p[1]].outp[p[2] + 1]
  IN IF \E k \in 1..Len(ins) : ~Resolvable(ins[k])
     THEN [acc EXCEPT !.defd = acc.defd \cup {t}]
     ELSE LET inp == [k \in 1..Len(ins) |-> Pair(ins[k])]
              rec == [ins |-> ins, inp |-> inp, outp |-> OutPairs(t), fee |-> FeeOf(inp, OutPairs(t))]
              ss == ScriptsOf(rec)
          IN [T |-> [x \in (DOMAIN acc.T) \cup {t} |-> IF x = t THEN rec ELSE acc.T[x]],
              H |-> [s \in (DOMAIN acc.H) \cup ss |-> IF s \in ss THEN (IF s \in DOMAIN acc.H THEN acc.H[s] ELSE {}) \cup {t}
                                                       ELSE acc.H[s]],
              tch |-> acc.tch \cup ss, defd |-> acc.defd, unsp |-> acc.unsp \ Range(ins)]
RECURSIVE AcceptSeq(_, _, _)
AcceptSeq(acc, s, umap) == IF s = <<>> THEN acc ELSE AcceptSeq(AcceptOne(acc, Head(s), umap), Tail(s), umap)
CAccept(c) ==
  /\ pc = "chunks" /\ chunks[c].cpc = "accept"
  /\ LET order == SelectSeq(chunks[c].hashes, LAMBDA t : t \in chunks[c].raw)
         a == AcceptSeq([T |-> txs, H |-> hx, tch |-> touched, defd |-> {}, unsp |-> chunks[c].umap], order, chunks[c].umap)
     IN /\ txs' = a.T /\ hx' = a.H /\ touched' = a.tch
        /\ defd' = defd \cup a.defd /\ unsp' = unsp \cup a.unsp
  /\ SetChunk(c, [chunks[c] EXCEPT !.cpc = "done"])
  /\ Log([e |-> "accept", c |-> c])
  /\ UNCHANGED <<tree, nb, best, pool, cachedH, dbTip, dbData, pc, rHeight, rAll, disturbed, lastView, handed, nrefresh, err, exactDue, tcOk>>
(* the fix-point loop over what was deferred, with the unspent lookups carried over *)
RECURSIVE FixPoint(_, _, _)
FixPoint(acc, todo, umap) ==
  LET a == AcceptSeq([acc EXCEPT !.defd = {}, !.unsp = umap], AscSeq(todo), umap)
  IN IF a.defd = {} \/ a.defd = todo THEN a ELSE FixPoint(a, a.defd, a.unsp)
RMerge ==
  /\ pc = "chunks" /\ \A c \in 1..Len(chunks) : chunks[c].cpc = "done"
  /\ LET a == IF defd = {} THEN [T |-> txs, H |-> hx, tch |-> touched, defd |-> {}, unsp |-> unsp]
              ELSE FixPoint([T |-> txs, H |-> hx, tch |-> touched, defd |-> {}, unsp |-> unsp], defd, unsp)
     IN txs' = a.T /\ hx' = a.H /\ touched' = a.tch
  /\ pc' = "handover" /\ defd' = {} /\ unsp' = {} /\ chunks' = <<>>
  /\ Log([e |-> "merge"])
  /\ UNCHANGED <<tree, nb, best, pool, cachedH, dbTip, dbData, rHeight, rAll, disturbed, lastView, handed, nrefresh, err, exactDue, tcOk>>
RHandOver ==
  /\ pc = "handover" /\ pc' = "sleep"
  /\ handed' = touched /\ touched' = {} /\ lastView' = DOMAIN txs
  /\ nrefresh' = nrefresh + 1
  /\ exactDue' = (~disturbed /\ dbTip = best /\ dbData = best /\ rHeight = Height(best))
  /\ tcOk' = \A t \in ((DOMAIN txs) \ lastView) \cup (lastView \ DOMAIN txs) :
               ({ TrueIn(t)[k][1] : k \in 1..Len(TrueIn(t)) } \cup { OutPairs(t)[k][1] : k \in 1..Len(OutPairs(t)) }) \subseteq touched
  /\ Log([e |-> "handover", h |-> rHeight])
  /\ (Export => PrintT(<<"SCN", ToJson(Append(evs, [e |-> "handover", h |-> rHeight]))>>))
  /\ UNCHANGED <<tree, nb, best, pool, cachedH, dbTip, dbData, txs, hx, rHeight, rAll, chunks, defd, unsp, disturbed, err>>
RSleep ==
  /\ pc = "sleep" /\ pc' = "idle" /\ Log([e |-> "sleep"])
  /\ UNCHANGED <<tree, nb, best, pool, cachedH, dbTip, dbData, txs, hx, rHeight, rAll, touched, chunks, defd, unsp,
                 disturbed, lastView, handed, nrefresh, err, exactDue, tcOk>>

Next == Arrive \/ Evict \/ Mine \/ Reorg \/ DbAssign \/ DbCommit \/ RList \/ RRecheck \/ RProcess
        \/ (\E c \in 1..Len(chunks) : CFetch(c) \/ CLookupH(c) \/ CLookupV(c) \/ CAccept(c)) \/ RMerge \/ RHandOver \/ RSleep
Spec == Init /\ [][Next]_vars

(* ------------------------------- properties ------------------------------- *)
(* C09 *)
NoRaise == err = ""
InverseIndex ==
  /\ \A s \in DOMAIN hx : hx[s] # {} /\ hx[s] = { t \in DOMAIN txs : s \in ScriptsOf(txs[t]) }
  /\ \A t \in DOMAIN txs : ScriptsOf(txs[t]) \subseteq DOMAIN hx
NoWrongInputs ==
  \A t \in DOMAIN txs : /\ txs[t].inp = TrueIn(t) /\ txs[t].outp = OutPairs(t)
                        /\ txs[t].fee = FeeOf(TrueIn(t), OutPairs(t))
(* C08 (and the healing clause of C09): a refresh that ran undisturbed on a synchronised index is exact *)
ExactWhenQuiet == exactDue => DOMAIN txs = pool
(* every script that gained or lost a transaction since the previous hand-over was reported *)
TouchedComplete == tcOk
=============================================================================
