SPECIFICATION Spec
INVARIANT NoRaise
INVARIANT NoWrongInputs
INVARIANT InverseIndex
INVARIANT ExactWhenQuiet
INVARIANT TouchedComplete
CHECK_DEADLOCK FALSE
