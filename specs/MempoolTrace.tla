----------------------------- MODULE MempoolTrace -----------------------------
(* Property-level validation (C08, C09) of what the real MemPool held after every step    *)
(* of a replayed schedule (txs / hashXs projections) and of what its four public query     *)
(* methods answered at every hand-over, against the universe and the daemon's mempool.     *)
EXTENDS ChainOracle, Json, IOUtils, TLC
Traces == JsonDeserialize(IOEnv.TRACE_FILE)
VARIABLES tid, l
vars == <<tid, l>>
T == Traces[tid]
S == T.steps[l]
Init == tid \in 1..Len(Traces) /\ l = 1
Next == l < Len(T.steps) /\ l' = l + 1 /\ UNCHANGED tid
Spec == Init /\ [][Next]_vars

NBlocks == Len(T.tree)
Tree == [b \in 0..(NBlocks - 1) |-> [parent |-> T.tree[b + 1][1], height |-> T.tree[b + 1][2], txs |-> T.tree[b + 1][3],
                                     cb |-> [k \in 1..Len(T.tree[b + 1][4]) |-> [s |-> T.tree[b + 1][4][k][1], v |-> T.tree[b + 1][4][k][2]]]]]
Outs(t) == OutsIn(Tree, t)
HasState == S.ev \in {"step", "handover", "final"}
OutPairs(t) == [k \in 1..Len(Outs(t)) |-> <<Outs(t)[k].s, Outs(t)[k].v>>]
TrueIn(t) == [k \in 1..Len(TxIns(t)) |-> LET o == Outs(TxIns(t)[k][1])[TxIns(t)[k][2] + 1] IN <<o.s, o.v>>]
SumV(ps) == LET RECURSIVE Sm(_)
                Sm(k) == IF k = 0 THEN 0 ELSE ps[k][2] + Sm(k - 1)
            IN Sm(Len(ps))
FeeOf(t) == IF SumV(TrueIn(t)) - SumV(OutPairs(t)) > 0 THEN SumV(TrueIn(t)) - SumV(OutPairs(t)) ELSE 0
ScriptsTrue(t) == { TrueIn(t)[k][1] : k \in 1..Len(TrueIn(t)) } \cup { OutPairs(t)[k][1] : k \in 1..Len(OutPairs(t)) }
Held == { S.txs[k][1] : k \in 1..Len(S.txs) }
Pairs(seq) == [k \in 1..Len(seq) |-> <<seq[k][1], seq[k][2]>>]

(* C09 *)
NoRaise == S.ev # "raised"
NoWrongInputs ==
  HasState => \A k \in 1..Len(S.txs) :
    LET t == S.txs[k][1]
    IN /\ t \in AllSlots
       /\ Pairs(S.txs[k][2]) = TrueIn(t) /\ Pairs(S.txs[k][3]) = OutPairs(t) /\ S.txs[k][4] = FeeOf(t)
InverseIndex ==
  HasState =>
    /\ Cardinality(Held) = Len(S.txs)
    /\ \A k \in 1..Len(S.hx) : /\ S.hx[k][2] # <<>>
                               /\ ToSet(S.hx[k][2]) = { t \in Held \cap AllSlots : S.hx[k][1] \in ScriptsTrue(t) }
    /\ \A t \in Held \cap AllSlots : ScriptsTrue(t) \subseteq { S.hx[k][1] : k \in 1..Len(S.hx) }
(* C08 *)
Pool == ToSet(S.pool)
HasUI(t) == \E k \in 1..Len(TxIns(t)) : TxIns(t)[k][1] \in Pool
Q(s) == CHOOSE q \in ToSet(S.q) : q[1] = s
ExactWhenQuiet ==
  (S.ev = "handover" /\ S.quiet) =>
    /\ S.qerr = ""
    /\ Held = Pool
    /\ \A s \in Scripts :
         LET mine == { t \in Pool : s \in ScriptsTrue(t) }
             RECURSIVE Bal(_)
             Bal(R) == IF R = {} THEN 0
                       ELSE LET t == CHOOSE x \in R : TRUE
                                outv == SumV(SelectSeq(OutPairs(t), LAMBDA p : p[1] = s))
                                inv == SumV(SelectSeq(TrueIn(t), LAMBDA p : p[1] = s))
                            IN outv - inv + Bal(R \ {t})
         IN /\ Q(s)[2] = Bal(mine)
            /\ ToSet(Q(s)[3]) = { <<t, FeeOf(t), IF HasUI(t) THEN 1 ELSE 0>> : t \in mine } /\ Len(Q(s)[3]) = Cardinality(mine)
            /\ ToSet(Q(s)[4]) = UNION { { <<t, k - 1, OutPairs(t)[k][2]>> : k \in { j \in 1..Len(OutPairs(t)) : OutPairs(t)[j][1] = s } } : t \in mine }
            /\ ToSet(Q(s)[5]) = UNION { { <<TxIns(t)[k][1], TxIns(t)[k][2]>> : k \in 1..Len(TxIns(t)) } : t \in mine }
(* every script that gained or lost a transaction since the previous hand-over is in the touched set *)
TouchedComplete ==
  S.ev = "handover" =>
    \A t \in ((Held \ ToSet(S.prev)) \cup (ToSet(S.prev) \ Held)) \cap AllSlots : ScriptsTrue(t) \subseteq ToSet(S.touched)
=============================================================================
