------------------------------- MODULE Merkle -------------------------------
(* electrumx/lib/merkle.py.                                                              *)
(* Hashes are structural terms so that TLC can decide equality of roots and branches:    *)
(*   leaf k = <<k>>, inner node = <<left, right>>, the TSC "*" marker = <<>>.            *)
(* Part 1: the definition of the Bitcoin merkle tree, positional (NodeAt), independent   *)
(*         of the code's level-by-level loop.                                            *)
(* Part 2: transcription of Merkle.branch_and_root / level / branch_and_root_from_level. *)
(* Part 3: transcription of MerkleCache (initialize, _extend_to, _level_for, truncate,   *)
(*         branch_and_root) over a source sequence.                                      *)
EXTENDS Integers, Sequences, FiniteSets, TLC

Star == <<>>
Leaf(k) == <<k>>
H(a, b) == <<a, b>>
Leaves(n) == [k \in 1..n |-> Leaf(k)]

RECURSIVE Pow2(_)
Pow2(k) == IF k = 0 THEN 1 ELSE 2 * Pow2(k - 1)
RECURSIVE CeilLog2(_)
CeilLog2(n) == IF n <= 1 THEN 0 ELSE 1 + CeilLog2((n + 1) \div 2)
Min(a, b) == IF a < b THEN a ELSE b
CeilDiv(a, b) == (a + b - 1) \div b
Xor1(i) == IF i % 2 = 0 THEN i + 1 ELSE i - 1

(* ------------------------------ Part 1: definition ------------------------------ *)
(* number of nodes k levels above the leaves of an n-leaf tree *)
RECURSIVE Count(_, _)
Count(n, k) == IF k = 0 THEN n ELSE CeilDiv(Count(n, k - 1), 2)
(* node at level k, position p (0-based); the last node of an odd level pairs with itself *)
RECURSIVE NodeAt(_, _, _)
NodeAt(s, k, p) ==
  IF k = 0 THEN s[p + 1]
  ELSE LET c == Count(Len(s), k - 1)
       IN H(NodeAt(s, k - 1, 2 * p), NodeAt(s, k - 1, Min(2 * p + 1, c - 1)))
(* tree of 'depth' levels over s (depth >= CeilLog2(Len(s)); above the natural depth the   *)
(* single node keeps pairing with itself, which is what a 'length' argument does)        *)
DefRoot(s, depth) == NodeAt(s, depth, 0)
DefBranch(s, i, depth, tsc) ==
  [k \in 1..depth |->
     LET c == Count(Len(s), k - 1)
         me == i \div Pow2(k - 1)
         sib == Xor1(me)
     IN IF sib > c - 1 THEN (IF tsc THEN Star ELSE NodeAt(s, k - 1, me))
        ELSE NodeAt(s, k - 1, sib)]
(* root_from_proof *)
RECURSIVE Fold(_, _, _)
Fold(h, branch, i) ==
  IF branch = <<>> THEN h
  ELSE Fold(IF i % 2 = 1 THEN H(Head(branch), h) ELSE H(h, Head(branch)), Tail(branch), i \div 2)
(* what a TSC client does: "*" stands for the node itself *)
RECURSIVE FoldTsc(_, _, _)
FoldTsc(h, branch, i) ==
  IF branch = <<>> THEN h
  ELSE LET e == IF Head(branch) = Star THEN h ELSE Head(branch)
       IN FoldTsc(IF i % 2 = 1 THEN H(e, h) ELSE H(h, e), Tail(branch), i \div 2)

(* --------------------------- Part 2: Merkle (the code) --------------------------- *)
Err == [ok |-> FALSE, branch |-> <<>>, root |-> <<>>]
Pad(s) == IF Len(s) % 2 = 1 THEN Append(s, s[Len(s)]) ELSE s
Up(s) == LET t == Pad(s) IN [k \in 1..(Len(t) \div 2) |-> H(t[2 * k - 1], t[2 * k])]
RECURSIVE Loop(_, _, _, _)
Loop(s, i, length, tsc) ==
  IF length = 0 THEN [ok |-> TRUE, branch |-> <<>>, root |-> s[1]]
  ELSE LET t == Pad(s)
           star == tsc /\ Len(s) % 2 = 1 /\ Xor1(i) = Len(t) - 1
           elt == IF star THEN Star ELSE t[Xor1(i) + 1]
           rest == Loop(Up(s), i \div 2, length - 1, tsc)
       IN [ok |-> TRUE, branch |-> <<elt>> \o rest.branch, root |-> rest.root]
(* Merkle.branch_and_root(hashes, index, length, tsc_format); length = -1 stands for None *)
BranchAndRoot(s, i, length, tsc) ==
  IF ~(0 <= i /\ i < Len(s)) THEN Err
  ELSE LET nat == CeilLog2(Len(s))
       IN IF length = -1 THEN Loop(s, i, nat, tsc)
          ELSE IF length < nat THEN Err ELSE Loop(s, i, length, tsc)
RootOf(s, length) == BranchAndRoot(s, 0, length, FALSE).root
(* Merkle.level(hashes, depth_higher) *)
LevelOf(s, dh) ==
  LET size == Pow2(dh)
  IN [k \in 1..CeilDiv(Len(s), size) |->
        RootOf(SubSeq(s, (k - 1) * size + 1, Min(k * size, Len(s))), dh)]
(* Merkle.branch_and_root_from_level *)
FromLevel(level, leafHashes, index, dh, tsc) ==
  LET leafIndex == (index \div Pow2(dh)) * Pow2(dh)
      lb == BranchAndRoot(leafHashes, index - leafIndex, dh, tsc)
      idx == index \div Pow2(dh)
      vb == BranchAndRoot(level, idx, -1, tsc)
  IN IF ~lb.ok \/ ~vb.ok THEN Err
     ELSE IF lb.root # level[idx + 1] THEN Err
     ELSE [ok |-> TRUE, branch |-> lb.branch \o vb.branch, root |-> vb.root]

(* ------------------------ Part 3: MerkleCache (the code) ------------------------ *)
(* a cache is [len, dh, level]; src is the source sequence; python slice semantics     *)
Slice(src, start, count) == SubSeq(src, start + 1, Min(start + count, Len(src)))
LeafStart(i, dh) == (i \div Pow2(dh)) * Pow2(dh)
CInit(src, n) ==
  LET dh == (CeilLog2(n) + 1) \div 2
  IN [len |-> n, dh |-> dh, level |-> LevelOf(Slice(src, 0, n), dh)]
(* _extend_to, given the hashes the source returned for (start, length - start) *)
CExtendWith(c, length, hashes) ==
  LET start == LeafStart(c.len, c.dh)
  IN [len |-> length, dh |-> c.dh,
      level |-> SubSeq(c.level, 1, Min(start \div Pow2(c.dh), Len(c.level))) \o LevelOf(hashes, c.dh)]
CExtendTo(c, src, length) ==
  IF length <= c.len THEN c
  ELSE LET start == LeafStart(c.len, c.dh)
       IN CExtendWith(c, length, Slice(src, start, length - start))
CLevelFor(c, src, length) ==
  IF length = c.len THEN c.level
  ELSE LET ls == LeafStart(length, c.dh)
           count == Min(Pow2(c.dh), length - ls)
       IN SubSeq(c.level, 1, Min(length \div Pow2(c.dh), Len(c.level)))
            \o LevelOf(Slice(src, ls, count), c.dh)
CTruncate(c, n) ==
  IF n >= c.len THEN c
  ELSE LET m == LeafStart(n, c.dh)
       IN [len |-> m, dh |-> c.dh, level |-> SubSeq(c.level, 1, Min(m \div Pow2(c.dh), Len(c.level)))]
(* MerkleCache.branch_and_root on a static source: returns [cache, res] *)
CQuery(c, src, length, index, tsc) ==
  LET c2 == CExtendTo(c, src, length)
      ls == LeafStart(index, c2.dh)
      count == Min(Pow2(c2.dh), length - ls)
      leafHashes == Slice(src, ls, count)
  IN [cache |-> c2,
      res |-> IF length < Pow2(c2.dh) THEN BranchAndRoot(leafHashes, index, -1, tsc)
              ELSE FromLevel(CLevelFor(c2, src, length), leafHashes, index, c2.dh, tsc)]
=============================================================================
