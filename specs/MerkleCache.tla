---------------------------- MODULE MerkleCache ----------------------------
(* State machine of a MerkleCache over a static source of N hashes: initialise once,    *)
(* then extend (by querying at a length) and truncate in any order.  Checked:            *)
(*   PureOK   the code's branch_and_root agrees with the positional definition for every *)
(*            list length <= N, index, padding and both formats;                         *)
(*   CacheOK  in every reachable cache state every query (length, index, format) answers *)
(*            exactly like a from-scratch computation.                                   *)
(* Transitions are exported (one representative path per distinct cache state, VIEW       *)
(* hides the path) for replay on the real class.                                         *)
EXTENDS Merkle, Json

CONSTANTS N, MaxOps, Export
VARIABLES cache, inited, nops, hist
vars == <<cache, inited, nops, hist>>
View == <<cache, inited>>

Src == Leaves(N)
Nil == [len |-> 0, dh |-> 0, level |-> <<>>]

Init == cache = Nil /\ inited = FALSE /\ nops = 0 /\ hist = <<>>

Out(op) == Export => PrintT(<<"TRANS", ToJson(Append(hist, op))>>)

DoInit(n) ==
  /\ ~inited /\ inited' = TRUE
  /\ cache' = CInit(Src, n)
  /\ Out([op |-> "init", a |-> n]) /\ hist' = Append(hist, [op |-> "init", a |-> n])
DoExt(len) ==
  /\ inited /\ UNCHANGED inited
  /\ cache' = CExtendTo(cache, Src, len)
  /\ Out([op |-> "ext", a |-> len]) /\ hist' = Append(hist, [op |-> "ext", a |-> len])
DoTrunc(n) ==
  /\ inited /\ UNCHANGED inited
  /\ cache' = CTruncate(cache, n)
  /\ Out([op |-> "trunc", a |-> n]) /\ hist' = Append(hist, [op |-> "trunc", a |-> n])

Next == /\ nops < MaxOps /\ nops' = nops + 1
        /\ \E n \in 1..N : DoInit(n) \/ DoExt(n) \/ DoTrunc(n)
Spec == Init /\ [][Next]_vars

BoolSet == {TRUE, FALSE}
PureOK ==
  \A n \in 1..N : \A i \in 0..(n - 1) : \A tsc \in BoolSet : \A extra \in 0..2 :
    LET s == Leaves(n)
        d == CeilLog2(n) + extra
        r == BranchAndRoot(s, i, IF extra = 0 THEN -1 ELSE d, tsc)
    IN /\ r.ok
       /\ r.root = DefRoot(s, d)
       /\ r.branch = DefBranch(s, i, d, tsc)
       /\ Len(r.branch) = d
       /\ (~tsc => Fold(s[i + 1], r.branch, i) = r.root)
       /\ (tsc => FoldTsc(s[i + 1], r.branch, i) = r.root)
CacheOK ==
  inited => \A len \in 1..N : \A i \in 0..(len - 1) : \A tsc \in BoolSet :
    LET q == CQuery(cache, Src, len, i, tsc).res
        s == SubSeq(Src, 1, len)
        d == CeilLog2(len)
    IN q.ok /\ q.root = DefRoot(s, d) /\ q.branch = DefBranch(s, i, d, tsc)
(* structural invariant of the cache: the level is the level of the covered prefix *)
Coherent ==
  inited => /\ cache.level = LevelOf(SubSeq(Src, 1, cache.len), cache.dh)
            /\ cache.len <= N
PureOnce == nops = 0 => PureOK
=============================================================================
