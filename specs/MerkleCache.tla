---------------------------- MODULE MerkleCache ----------------------------
(* State machine of a MerkleCache over a source of N hashes: initialise once, then       *)
(* extend (by querying at a length) and truncate in any order; a truncation to n may be   *)
(* followed by the source changing beyond n (what a reorganisation does to the header     *)
(* chain: backup_fs truncates to the new height + 1, later blocks differ).  Checked:       *)
(*   PureOK   the code's branch_and_root agrees with the positional definition for every *)
(*            list length <= N, index, padding and both formats;                         *)
(*   CacheOK  in every reachable cache state every query (length, index, format) answers *)
(*            exactly like a from-scratch computation.                                   *)
(* Transitions are exported (one representative path per distinct cache state, VIEW       *)
(* hides the path) for replay on the real class.                                         *)
EXTENDS Merkle, Json

CONSTANTS N, MaxOps, MaxGen, Export
VARIABLES cache, inited, nops, hist, src, gen
vars == <<cache, inited, nops, hist, src, gen>>
View == <<cache, inited, src>>

Src == src
Nil == [len |-> 0, dh |-> 0, level |-> <<>>]

Init == cache = Nil /\ inited = FALSE /\ nops = 0 /\ hist = <<>> /\ src = Leaves(N) /\ gen = 0

Out(op) == Export => PrintT(<<"TRANS", ToJson(Append(hist, op))>>)

DoInit(n) ==
  /\ ~inited /\ inited' = TRUE
  /\ cache' = CInit(Src, n)
  /\ Out([op |-> "init", a |-> n, chg |-> FALSE]) /\ hist' = Append(hist, [op |-> "init", a |-> n, chg |-> FALSE])
  /\ UNCHANGED <<src, gen>>
DoExt(len) ==
  /\ inited /\ UNCHANGED inited
  /\ cache' = CExtendTo(cache, Src, len)
  /\ Out([op |-> "ext", a |-> len, chg |-> FALSE]) /\ hist' = Append(hist, [op |-> "ext", a |-> len, chg |-> FALSE])
  /\ UNCHANGED <<src, gen>>
DoTrunc(n, chg) ==
  /\ inited /\ UNCHANGED inited
  /\ cache' = CTruncate(cache, n)
  /\ IF chg THEN /\ gen < MaxGen /\ gen' = gen + 1
                 /\ src' = [k \in 1..N |-> IF k <= n THEN src[k] ELSE Leaf(k + 100 * (gen + 1))]
            ELSE UNCHANGED <<src, gen>>
  /\ Out([op |-> "trunc", a |-> n, chg |-> chg]) /\ hist' = Append(hist, [op |-> "trunc", a |-> n, chg |-> chg])

Next == /\ nops < MaxOps /\ nops' = nops + 1
        /\ \E n \in 1..N : DoInit(n) \/ DoExt(n) \/ DoTrunc(n, FALSE) \/ DoTrunc(n, TRUE)
Spec == Init /\ [][Next]_vars

BoolSet == {TRUE, FALSE}
PureOK ==
  \A n \in 1..N : \A i \in 0..(n - 1) : \A tsc \in BoolSet : \A extra \in 0..2 :
    LET s == Leaves(n)
        d == CeilLog2(n) + extra
        r == BranchAndRoot(s, i, IF extra = 0 THEN -1 ELSE d, tsc)
    IN /\ r.ok
       /\ r.root = DefRoot(s, d)
       /\ r.branch = DefBranch(s, i, d, tsc)
       /\ Len(r.branch) = d
       /\ (~tsc => Fold(s[i + 1], r.branch, i) = r.root)
       /\ (tsc => FoldTsc(s[i + 1], r.branch, i) = r.root)
CacheOK ==
  inited => \A len \in 1..N : \A i \in 0..(len - 1) : \A tsc \in BoolSet :
    LET q == CQuery(cache, Src, len, i, tsc).res
        s == SubSeq(Src, 1, len)
        d == CeilLog2(len)
    IN q.ok /\ q.root = DefRoot(s, d) /\ q.branch = DefBranch(s, i, d, tsc)
(* structural invariant of the cache: the level is the level of the covered prefix *)
Coherent ==
  inited => /\ cache.level = LevelOf(SubSeq(Src, 1, cache.len), cache.dh)
            /\ cache.len <= N
PureOnce == nops = 0 => PureOK
=============================================================================
