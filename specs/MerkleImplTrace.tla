--------------------------- MODULE MerkleImplTrace ---------------------------
(* Implementation-level conformance of the real MerkleCache (length, depth_higher, level) *)
(* with the transcription in Merkle.tla, op by op.  A mismatch is MODEL-DRIFT.             *)
EXTENDS Merkle, SequencesExt, Json, IOUtils
CONSTANT N
Traces == JsonDeserialize(IOEnv.TRACE_FILE)
VARIABLES tid, l, cache, src, gen
vars == <<tid, l, cache, src, gen>>
Src == src
Nil == [len |-> 0, dh |-> 0, level |-> <<>>]
Init == tid \in 1..Len(Traces) /\ l = 1 /\ cache = Nil /\ src = Leaves(N) /\ gen = 0
Steps == Traces[tid].steps
Same(e, c) == e.len = c.len /\ e.dh = c.dh /\ e.level = c.level
Next ==
  /\ l <= Len(Steps) /\ l' = l + 1 /\ UNCHANGED tid
  /\ LET e == Steps[l]
         c == IF e.op = "init" THEN CInit(Src, e.a)
              ELSE IF e.op = "ext" THEN CExtendTo(cache, Src, e.a)
              ELSE CTruncate(cache, e.a)
     IN /\ Same(e, c) /\ cache' = c
        /\ IF e.op = "trunc" /\ e.chg
           THEN gen' = gen + 1 /\ src' = [k \in 1..N |-> IF k <= e.a THEN src[k] ELSE Leaf(k + 100 * (gen + 1))]
           ELSE UNCHANGED <<src, gen>>
Spec == Init /\ [][Next]_vars
NotStuck == l <= Len(Steps) => ENABLED Next
=============================================================================
