--------------------------- MODULE MerkleImplTrace ---------------------------
(* Implementation-level conformance of the real MerkleCache (length, depth_higher, level) *)
(* with the transcription in Merkle.tla, op by op.  A mismatch is MODEL-DRIFT.             *)
EXTENDS Merkle, SequencesExt, Json, IOUtils
CONSTANT N
Traces == JsonDeserialize(IOEnv.TRACE_FILE)
VARIABLES tid, l, cache
vars == <<tid, l, cache>>
Src == Leaves(N)
Nil == [len |-> 0, dh |-> 0, level |-> <<>>]
Init == tid \in 1..Len(Traces) /\ l = 1 /\ cache = Nil
Steps == Traces[tid].steps
Same(e, c) == e.len = c.len /\ e.dh = c.dh /\ e.level = c.level
Next ==
  /\ l <= Len(Steps) /\ l' = l + 1 /\ UNCHANGED tid
  /\ LET e == Steps[l]
         c == IF e.op = "init" THEN CInit(Src, e.a)
              ELSE IF e.op = "ext" THEN CExtendTo(cache, Src, e.a)
              ELSE CTruncate(cache, e.a)
     IN Same(e, c) /\ cache' = c
Spec == Init /\ [][Next]_vars
NotStuck == l <= Len(Steps) => ENABLED Next
=============================================================================
