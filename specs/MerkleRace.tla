------------------------------ MODULE MerkleRace ------------------------------
(* MerkleCache.branch_and_root (merkle.py) as the header-proof cache uses it: its awaits    *)
(* (_extend_to's fetch, the leaf fetch, _level_for's fetch) are separate steps, and a        *)
(* reorganisation (DB.backup_fs -> truncate, headers beyond the fork replaced, new blocks    *)
(* appended) can fall between any two of them.                                              *)
(* Variant "orig": the pinned code - an extension fetched before a truncation is assigned   *)
(* after it, and a truncation that does not shorten the cache leaves no mark.               *)
(* Variant "fixed": every mutation of the cache (each truncate() call, each completed        *)
(* extension) bumps a version; _extend_to starts over when the version changed during its   *)
(* fetch (a truncation, or another request's extension, happened meanwhile).                *)
EXTENDS Merkle, Json

CONSTANTS N,            \* source capacity (heights 0..N-1)
          InitLen,      \* length the cache is initialised to
          StartLen,     \* headers that exist at the start
          MaxReqs, MaxReorgs, Variant, Export,
          TruncFirst    \* TRUE: flush_backup as it was before fix (F11) - the worker thread truncates the cache (backup_fs)
                        \* BEFORE it rolls the chain state back; a request served in between still passes its range check.
                        \* Must violate NoPoisoning.  FALSE: truncation after the roll-back, which is what Reorg models.

VARIABLES src, slen, gen, cache, trunc, reqs, nreq, nreorg, bad, pend, evs
vars == <<src, slen, gen, cache, trunc, reqs, nreq, nreorg, bad, pend, evs>>
View == <<src, slen, gen, cache, trunc, reqs, nreq, nreorg, bad, pend>>

Ev(e) == evs' = IF Export THEN Append(evs, e) ELSE evs
Init == /\ src = Leaves(N) /\ slen = StartLen /\ gen = 0 /\ cache = CInit(Leaves(N), InitLen) /\ trunc = 0
        /\ reqs = {} /\ nreq = 0 /\ nreorg = 0 /\ bad = {} /\ pend = FALSE /\ evs = <<>>
Visible == SubSeq(src, 1, slen)
(* fs_block_hashes(start, count): exactly count hashes or a DBError *)
Fetch(start, count) == IF start + count <= slen THEN [ok |-> TRUE, h |-> SubSeq(src, start + 1, start + count)]
                       ELSE [ok |-> FALSE, h |-> <<>>]

(* ---- a reorganisation: back up to n headers (truncate(n) per undone block), the rest is replaced later ---- *)
Reorg ==
  /\ ~pend /\ nreorg < MaxReorgs /\ nreorg' = nreorg + 1
  /\ \E n \in 1..(slen - 1) :
       /\ slen' = n /\ gen' = gen + 1
       /\ src' = [k \in 1..N |-> IF k <= n THEN src[k] ELSE Leaf(k + 100 * (gen + 1))]
       /\ cache' = CTruncate(cache, n)
       /\ trunc' = trunc + 1
       /\ Ev([e |-> "reorg", n |-> n])
  \* requests in flight lived through a reorg: they may fail or answer for an in-between state
  /\ reqs' = { [r EXCEPT !.clean = FALSE] : r \in reqs }
  /\ UNCHANGED <<nreq, bad, pend>>
(* the pre-fix order of one undone block, as two steps of the worker thread *)
UndoTruncEarly ==
  /\ TruncFirst /\ ~pend /\ nreorg < MaxReorgs /\ slen > 1
  /\ pend' = TRUE /\ cache' = CTruncate(cache, slen - 1) /\ trunc' = trunc + 1
  /\ Ev([e |-> "undo1"])
  /\ UNCHANGED <<src, slen, gen, reqs, nreq, nreorg, bad>>
UndoCommit ==
  /\ pend /\ pend' = FALSE /\ nreorg' = nreorg + 1
  /\ slen' = slen - 1 /\ gen' = gen + 1
  /\ src' = [k \in 1..N |-> IF k <= slen - 1 THEN src[k] ELSE Leaf(k + 100 * (gen + 1))]
  /\ reqs' = { [r EXCEPT !.clean = FALSE] : r \in reqs }
  /\ Ev([e |-> "undo2"])
  /\ UNCHANGED <<cache, trunc, nreq, bad>>
Grow ==
  /\ ~pend /\ slen < N /\ slen' = slen + 1 /\ Ev([e |-> "grow"])
  /\ UNCHANGED <<src, gen, cache, trunc, reqs, nreq, nreorg, bad, pend>>

(* ---- branch_and_root(length, index) ---- *)
Begin ==
  /\ nreq < MaxReqs /\ nreq' = nreq + 1
  /\ \E length \in 1..slen : \E index \in 0..(length - 1) :
       /\ reqs' = reqs \cup {[id |-> nreq + 1, length |-> length, index |-> index, pc |-> "extend", clean |-> TRUE,
                              h |-> <<>>, start |-> 0, tc |-> 0, leaf |-> <<>>]}
       /\ Ev([e |-> "begin", id |-> nreq + 1, length |-> length, index |-> index])
  /\ UNCHANGED <<src, slen, gen, cache, trunc, nreorg, bad, pend>>
Upd(r, r2) == reqs' = (reqs \ {r}) \cup {r2}
Drop(r) == reqs' = reqs \ {r}
(* _extend_to: nothing to do, or fetch from the start of the final partial segment *)
ExtFetch(r) ==
  /\ r.pc = "extend"
  /\ IF r.length <= cache.len THEN Upd(r, [r EXCEPT !.pc = "leaf"])
     ELSE LET start == LeafStart(cache.len, cache.dh)
              f == Fetch(start, r.length - start)
          IN IF f.ok THEN Upd(r, [r EXCEPT !.pc = "assign", !.h = f.h, !.start = start, !.tc = trunc])
             ELSE Drop(r)                                  \* DBError: the request fails
  /\ Ev([e |-> "extfetch", id |-> r.id])
  /\ UNCHANGED <<src, slen, gen, cache, trunc, nreq, nreorg, bad, pend>>
ExtAssign(r) ==
  /\ r.pc = "assign"
  /\ IF Variant = "fixed" /\ r.tc # trunc
     THEN Upd(r, [r EXCEPT !.pc = "extend"]) /\ UNCHANGED cache      \* a truncation intervened: start over
     ELSE /\ cache' = [len |-> r.length, dh |-> cache.dh,
                       level |-> SubSeq(cache.level, 1, Min(r.start \div Pow2(cache.dh), Len(cache.level))) \o LevelOf(r.h, cache.dh)]
          /\ Upd(r, [r EXCEPT !.pc = "leaf"])
  /\ trunc' = IF Variant = "fixed" /\ r.tc = trunc THEN trunc + 1 ELSE trunc
  /\ Ev([e |-> "assign", id |-> r.id])
  /\ UNCHANGED <<src, slen, gen, nreq, nreorg, bad, pend>>
LeafFetch(r) ==
  /\ r.pc = "leaf"
  /\ LET ls == LeafStart(r.index, cache.dh)
         f == Fetch(ls, Min(Pow2(cache.dh), r.length - ls))
     IN IF f.ok THEN Upd(r, [r EXCEPT !.pc = "level", !.leaf = f.h]) ELSE Drop(r)
  /\ Ev([e |-> "leaffetch", id |-> r.id])
  /\ UNCHANGED <<src, slen, gen, cache, trunc, nreq, nreorg, bad, pend>>
(* the rest: small trees directly, else the (possibly re-fetched) level; the answer is checked at once *)
Finish(r) ==
  /\ r.pc = "level"
  /\ LET res == IF r.length < Pow2(cache.dh) THEN BranchAndRoot(r.leaf, r.index, -1, FALSE)
                ELSE IF r.length # cache.len /\ ~Fetch(LeafStart(r.length, cache.dh),
                                                      Min(Pow2(cache.dh), r.length - LeafStart(r.length, cache.dh))).ok
                THEN Err
                ELSE FromLevel(CLevelFor(cache, Visible, r.length), r.leaf, r.index, cache.dh, FALSE)
         want == SubSeq(src, 1, r.length)
         good == ~res.ok \/ (/\ r.length <= slen /\ res.root = DefRoot(want, CeilLog2(r.length))
                             /\ res.branch = DefBranch(want, r.index, CeilLog2(r.length), FALSE))
     IN \* a request that lived through no reorg is refused (an error) or answered with a proof of the
        \* current hashes; one that overlapped a reorg may also answer for an in-between state
        bad' = IF r.clean /\ ~good THEN bad \cup {r.id} ELSE bad
  /\ Drop(r)
  /\ Ev([e |-> "finish", id |-> r.id])
  /\ (Export /\ reqs' = {} => PrintT(<<"SCN", ToJson(Append(evs, [e |-> "finish", id |-> r.id]))>>))
  /\ UNCHANGED <<src, slen, gen, cache, trunc, nreq, nreorg, pend>>

Next == Reorg \/ UndoTruncEarly \/ UndoCommit \/ Grow \/ Begin \/ (\E r \in reqs : ExtFetch(r) \/ ExtAssign(r) \/ LeafFetch(r) \/ Finish(r))
Spec == Init /\ [][Next]_vars

(* ---- properties (C11, header-proof cache) ---- *)
(* requests issued at or after quiescence are answered with proofs of the current hashes *)
ProofsVerify == bad = {}
(* whatever raced, once nothing is in flight the cache describes the current chain *)
NoPoisoning == (reqs = {} /\ ~pend) => /\ cache.len <= slen
                            /\ cache.level = LevelOf(SubSeq(src, 1, cache.len), cache.dh)
=============================================================================
