SPECIFICATION Spec
INVARIANT AnswerOK
INVARIANT FoldsBack
INVARIANT BranchLen
INVARIANT TscForm
CHECK_DEADLOCK FALSE
