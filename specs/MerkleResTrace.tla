--------------------------- MODULE MerkleResTrace ---------------------------
(* Property-level validation (C12) of answers recorded from the real Merkle and           *)
(* MerkleCache (run with a structural hash function, so roots and branches are terms).    *)
(* Each record is one distinct answer:                                                    *)
(*   kind "pure":  Merkle.branch_and_root(Leaves(n), i, length = natural + extra, tsc)    *)
(*   kind "cache": MerkleCache.branch_and_root(n, i, tsc) in some reachable cache state;   *)
(*                 src lists the leaf ids the source held for positions 1..n at that time  *)
(*   kind "blen":  Merkle.branch_length / tree_depth at hash count 2^k + d                *)
EXTENDS Merkle, SequencesExt, Json, IOUtils
Results == JsonDeserialize(IOEnv.TRACE_FILE)
VARIABLES tid, l
vars == <<tid, l>>
Init == tid \in 1..Len(Results) /\ l = 1
Next == UNCHANGED vars
Spec == Init /\ [][Next]_vars

R == Results[tid]
ExpectedLen(k, d) == IF d = 1 THEN k + 1 ELSE IF d = 0 THEN k ELSE IF k <= 1 THEN 0 ELSE k

AnswerOK ==
  R.kind \in {"pure", "cache"} =>
    LET s == [k \in 1..R.n |-> Leaf(R.src[k])]
        depth == CeilLog2(R.n) + R.extra
    IN /\ R.ok
       /\ R.root = DefRoot(s, depth)
       /\ R.branch = DefBranch(s, R.i, depth, R.tsc)
FoldsBack ==
  R.kind \in {"pure", "cache"} =>
    IF R.tsc THEN FoldTsc(Leaf(R.src[R.i + 1]), R.branch, R.i) = R.root
    ELSE Fold(Leaf(R.src[R.i + 1]), R.branch, R.i) = R.root
BranchLen ==
  /\ R.kind \in {"pure", "cache"} => Len(R.branch) = CeilLog2(R.n) + R.extra
  /\ R.kind = "blen" => R.bl = ExpectedLen(R.k, R.d) /\ R.td = R.bl + 1
TscForm ==
  (R.kind \in {"pure", "cache"} /\ R.tsc) =>
    LET s == [j \in 1..R.n |-> Leaf(R.src[j])]
        classic == DefBranch(s, R.i, CeilLog2(R.n) + R.extra, FALSE)
    IN /\ Len(R.branch) = Len(classic)
       /\ \A k \in 1..Len(classic) :
            \/ R.branch[k] = classic[k]
            \/ /\ R.branch[k] = Star
               \* a duplicated node: the sibling is the node on the path itself
               /\ classic[k] = NodeAt(s, k - 1, R.i \div Pow2(k - 1))
               /\ Xor1(R.i \div Pow2(k - 1)) > Count(R.n, k - 1) - 1
=============================================================================
