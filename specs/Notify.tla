------------------------------- MODULE Notify -------------------------------
(* Notifications (controller.py) together with the part of the server that calls it:    *)
(* the block processor's catch-up / flush / reorg loop and the mempool refresh loop.    *)
(* The environment issues exactly the boundary calls the surrounding code can issue:    *)
(*   on_block(t, h)   from on_caught_up, after flush(True) at in-memory height h, once   *)
(*                    caught_up is already true;                                         *)
(*   on_mempool(t, h) after a refresh that saw daemon height = stored height = h at one  *)
(*                    instant, delivered arbitrarily later;                              *)
(*   start(h)         after the first mempool synchronisation, h = stored height then.   *)
EXTENDS NotifyClass, Sequences, TLC, Json

CONSTANTS MaxH,        \* heights range over 0..MaxH
          MaxCalls,    \* bound on the number of boundary calls
          Variant,     \* "orig" | "le" | "fixed"
          Record,      \* TRUE: keep the call history (behaviour export)
          FreeEnv      \* TRUE: replace the environment by "any call at any height"

VARIABLES tmp, tbp, highest, started,                 \* the class (notify is a no-op before start)
          daemonH, mem, stored, bpPc, target, rem, caughtUp,   \* block processor + daemon
          mpPc, mpH, synced,                          \* mempool refresh loop
          ncalls, mpSeen, bpSeen, startH, lastMp, lastBp, handed, notified, lastNote,
          mpSince, bpSince,
          hist

classVars == <<tmp, tbp, highest, started>>
bpVars == <<daemonH, mem, stored, bpPc, target, rem, caughtUp>>
mpVars == <<mpPc, mpH, synced>>
bookVars == <<ncalls, mpSeen, bpSeen, startH, lastMp, lastBp, handed, notified, lastNote,
              mpSince, bpSince>>
vars == <<classVars, bpVars, mpVars, bookVars, hist>>

Heights == 0..MaxH

Init ==
  /\ tmp = Empty /\ tbp = Empty /\ highest = -1 /\ started = FALSE
  /\ daemonH \in Heights /\ mem = 0 /\ stored = 0 /\ bpPc = "poll" /\ target = 0 /\ rem = 0
  /\ caughtUp = FALSE
  /\ mpPc = "idle" /\ mpH = 0 /\ synced = FALSE
  /\ ncalls = 0 /\ mpSeen = {} /\ bpSeen = {} /\ startH = -1 /\ lastMp = -1 /\ lastBp = -1
  /\ handed = {} /\ notified = {} /\ lastNote = NoNote /\ mpSince = {} /\ bpSince = {}
  /\ hist = <<>>

(* behaviour export: the call history is printed by the transition that makes the last call *)
Log(rec) == /\ hist' = IF Record THEN Append(hist, rec) ELSE hist
            /\ (Record /\ ncalls + 1 = MaxCalls) => PrintT(<<"BEH", ToJson(Append(hist, rec))>>)

(* ---------------- daemon ---------------- *)
DaemonMove ==
  /\ ~FreeEnv
  /\ \E h \in Heights : h # daemonH /\ daemonH' = h
  /\ UNCHANGED <<classVars, mem, stored, bpPc, target, rem, caughtUp, mpVars, bookVars, hist>>

(* ---------------- block processor ---------------- *)
BPPoll ==
  /\ ~FreeEnv
  /\ bpPc = "poll"
  /\ IF daemonH > mem
     THEN /\ \E t \in (mem + 1)..daemonH : target' = t
          /\ bpPc' = "adv"
     ELSE /\ bpPc' = "cuflush" /\ UNCHANGED target
  /\ UNCHANGED <<classVars, daemonH, mem, stored, rem, caughtUp, mpVars, bookVars, hist>>

BPAdvance ==
  /\ ~FreeEnv
  /\ bpPc = "adv" /\ mem < target
  /\ mem' = mem + 1
  /\ bpPc' = IF mem' = target THEN "poll" ELSE "adv"
  /\ UNCHANGED <<classVars, daemonH, stored, target, rem, caughtUp, mpVars, bookVars, hist>>

(* flush(True) forced by cache pressure right after a block *)
BPMidFlush ==
  /\ ~FreeEnv
  /\ bpPc \in {"adv", "poll"} /\ stored # mem /\ rem = 0
  /\ stored' = mem
  /\ UNCHANGED <<classVars, daemonH, mem, bpPc, target, rem, caughtUp, mpVars, bookVars, hist>>

BPCuFlush ==
  /\ ~FreeEnv
  /\ bpPc = "cuflush"
  /\ stored' = mem
  /\ IF caughtUp THEN bpPc' = "cunotify" /\ UNCHANGED caughtUp
                 ELSE bpPc' = "poll" /\ caughtUp' = TRUE
  /\ UNCHANGED <<classVars, daemonH, mem, target, rem, mpVars, bookVars, hist>>

(* the notification actually issued, given that notify is a no-op before start *)
Issued(r) == IF started THEN r.note ELSE NoNote

Book(kind, toks, h, r) ==
  /\ ncalls' = ncalls + 1
  /\ mpSeen' = IF kind = "mp" THEN mpSeen \cup {h} ELSE mpSeen
  /\ bpSeen' = IF kind = "blk" THEN bpSeen \cup {h} ELSE bpSeen
  /\ lastMp' = IF kind = "mp" THEN h ELSE lastMp
  /\ lastBp' = IF kind = "blk" THEN h ELSE lastBp
  /\ handed' = IF started THEN handed \cup toks ELSE handed
  /\ lastNote' = Issued(r)
  /\ notified' = IF Issued(r).fire THEN notified \cup Issued(r).toks ELSE notified
  \* reports received since the last notification (a notification consumes them)
  /\ mpSince' = IF Issued(r).fire \/ ~started THEN {} ELSE IF kind = "mp" THEN mpSince \cup {h} ELSE mpSince
  /\ bpSince' = IF Issued(r).fire \/ ~started THEN {} ELSE IF kind = "blk" THEN bpSince \cup {h} ELSE bpSince
  /\ UNCHANGED startH
  /\ Log([ev |-> kind, h |-> h, tok |-> ncalls + 1])

BPCuNotify ==
  /\ ~FreeEnv
  /\ bpPc = "cunotify" /\ ncalls < MaxCalls
  /\ LET toks == {ncalls + 1}
         r == OnBlock(tmp, tbp, toks, mem, Variant)
     IN /\ tmp' = r.tmp /\ tbp' = r.tbp /\ highest' = mem
        /\ Book("blk", toks, mem, r)
  /\ bpPc' = "poll"
  /\ UNCHANGED <<started, daemonH, mem, stored, target, rem, caughtUp, mpVars>>

(* reorg (natural: daemon switched branch; forced: admin RPC): flush, then undo k blocks *)
BPReorgStart ==
  /\ ~FreeEnv
  /\ bpPc = "poll" /\ mem > 0
  /\ \E k \in 1..mem : rem' = k
  /\ stored' = mem
  /\ bpPc' = "reorg"
  /\ UNCHANGED <<classVars, daemonH, mem, target, caughtUp, mpVars, bookVars, hist>>

BPBackup ==
  /\ ~FreeEnv
  /\ bpPc = "reorg" /\ rem > 0
  /\ mem' = mem - 1 /\ stored' = mem - 1 /\ rem' = rem - 1
  /\ bpPc' = IF rem' = 0 THEN "poll" ELSE "reorg"
  /\ UNCHANGED <<classVars, daemonH, target, caughtUp, mpVars, bookVars, hist>>

(* ---------------- mempool refresh ---------------- *)
MPCapture ==
  /\ ~FreeEnv
  /\ mpPc = "idle" /\ caughtUp /\ stored = daemonH
  /\ mpH' = daemonH /\ mpPc' = "got"
  /\ UNCHANGED <<classVars, bpVars, synced, bookVars, hist>>

MPDeliver ==
  /\ ~FreeEnv
  /\ mpPc = "got" /\ ncalls < MaxCalls
  /\ LET toks == {ncalls + 1}
         r == OnMempool(tmp, tbp, highest, toks, mpH, Variant)
     IN /\ tmp' = r.tmp /\ tbp' = r.tbp
        /\ Book("mp", toks, mpH, r)
  /\ mpPc' = "idle" /\ synced' = TRUE
  /\ UNCHANGED <<highest, started, bpVars, mpH>>

(* ---------------- session manager start-up ---------------- *)
Start ==
  /\ ~FreeEnv
  /\ synced /\ ~started /\ ncalls < MaxCalls
  /\ started' = TRUE /\ highest' = stored /\ startH' = stored
  /\ lastBp' = stored
  /\ ncalls' = ncalls + 1
  /\ lastNote' = NoNote
  /\ Log([ev |-> "start", h |-> stored, tok |-> 0])
  /\ UNCHANGED <<tmp, tbp, bpVars, mpVars, mpSeen, bpSeen, lastMp, handed, notified, mpSince, bpSince>>

(* ---------------- unconstrained caller (robustness: any call order) ---------------- *)
FreeMp ==
  /\ FreeEnv
  /\ ncalls < MaxCalls
  /\ \E h \in Heights :
       LET toks == {ncalls + 1}
           r == OnMempool(tmp, tbp, highest, toks, h, Variant)
       IN /\ tmp' = r.tmp /\ tbp' = r.tbp /\ Book("mp", toks, h, r)
  /\ UNCHANGED <<highest, started, bpVars, mpVars>>
FreeBlk ==
  /\ FreeEnv
  /\ ncalls < MaxCalls
  /\ \E h \in Heights :
       LET toks == {ncalls + 1}
           r == OnBlock(tmp, tbp, toks, h, Variant)
       IN /\ tmp' = r.tmp /\ tbp' = r.tbp /\ highest' = h /\ Book("blk", toks, h, r)
  /\ UNCHANGED <<started, bpVars, mpVars>>
FreeStart ==
  /\ FreeEnv
  /\ ~started /\ ncalls < MaxCalls
  /\ \E h \in Heights :
       /\ started' = TRUE /\ highest' = h /\ startH' = h /\ lastBp' = h
       /\ Log([ev |-> "start", h |-> h, tok |-> 0])
  /\ ncalls' = ncalls + 1 /\ lastNote' = NoNote
  /\ UNCHANGED <<tmp, tbp, bpVars, mpVars, mpSeen, bpSeen, lastMp, handed, notified, mpSince, bpSince>>

Next == FreeMp \/ FreeBlk \/ FreeStart \/ DaemonMove \/ BPPoll \/ BPAdvance \/ BPMidFlush \/ BPCuFlush \/ BPCuNotify
        \/ BPReorgStart \/ BPBackup \/ MPCapture \/ MPDeliver \/ Start

Spec == Init /\ [][Next]_vars

(* ---------------- the property (C20) ---------------- *)
OnlyAgreed ==
  lastNote.fire => /\ lastNote.h \in mpSeen
                   /\ (lastNote.h \in bpSeen \/ lastNote.h = startH)

(* Nothing handed over since start-up is missing once both sources have reported at the  *)
(* current height: either the call just made issued a notification for the current       *)
(* height, or both sources have reported at it since the last notification.              *)
NothingLost ==
  (/\ started /\ lastMp = lastBp
   /\ \/ (lastNote.fire /\ lastNote.h = lastBp)
      \/ (lastBp \in mpSince /\ lastBp \in bpSince))
  => handed \subseteq notified

TypeOK ==
  /\ DOMAIN tmp \subseteq Heights /\ DOMAIN tbp \subseteq Heights
  /\ highest \in Heights \cup {-1}

=============================================================================
