---------------------------- MODULE NotifyClass ----------------------------
(* electrumx/server/controller.py: class Notifications, transcribed as pure operators.   *)
(* tmp / tbp are the dictionaries _touched_mp / _touched_bp: functions from the set of   *)
(* pending heights to sets of tokens (a token stands for a script hash handed over).     *)
(* Variant selects the code being modelled:                                              *)
(*   "orig"  the code as pinned (pending mempool sets below the notified height are      *)
(*           deleted, a second hand-over at the same height overwrites the first);       *)
(*   "le"    hand-overs at one height are united, pending sets at or below the notified   *)
(*           height are merged (not enough when heights fall);                           *)
(*   "fixed" the repaired code: as "le", and sets pending above the current block height  *)
(*           (left over from before a reorganisation) are merged as well.                *)
EXTENDS Integers, FiniteSets

Max(S) == CHOOSE x \in S : \A y \in S : y <= x

Put(f, h, toks, variant) ==
  IF variant # "orig" /\ h \in DOMAIN f
  THEN [f EXCEPT ![h] = @ \cup toks]
  ELSE [k \in (DOMAIN f) \cup {h} |-> IF k = h THEN toks ELSE f[k]]

Restrict(f, S) == [k \in S |-> f[k]]
UnionOver(f, S) == UNION { f[k] : k \in S }
Empty == [k \in {} |-> {}]

NoNote == [fire |-> FALSE, h |-> 0, toks |-> {}]

(* _maybe_notify: returns the new dictionaries and the notification issued, if any *)
MaybeNotify(tmp, tbp, highest, variant) ==
  LET common == (DOMAIN tmp) \cap (DOMAIN tbp)
      fire == common # {} \/ (DOMAIN tmp # {} /\ Max(DOMAIN tmp) = highest)
      h == IF common # {} THEN Max(common) ELSE highest
      lowMp == { k \in DOMAIN tmp : k <= h }
      lowBp == { k \in DOMAIN tbp : k <= h }
  IN IF ~fire THEN [tmp |-> tmp, tbp |-> tbp, note |-> NoNote]
     ELSE IF variant = "orig"
     THEN [tmp |-> Restrict(tmp, (DOMAIN tmp) \ lowMp),
           tbp |-> Restrict(tbp, (DOMAIN tbp) \ lowBp),
           note |-> [fire |-> TRUE, h |-> h, toks |-> tmp[h] \cup UnionOver(tbp, lowBp)]]
     ELSE IF variant = "le"
     THEN [tmp |-> Restrict(tmp, (DOMAIN tmp) \ lowMp),
           tbp |-> Restrict(tbp, (DOMAIN tbp) \ lowBp),
           note |-> [fire |-> TRUE, h |-> h,
                     toks |-> UnionOver(tmp, lowMp) \cup UnionOver(tbp, lowBp)]]
     ELSE \* "fixed": everything pending at or below the notified height goes out, and so
          \* does anything pending above the current block height (left from before a reorg)
          LET dueMp == { k \in DOMAIN tmp : k <= h \/ k > highest }
              dueBp == { k \in DOMAIN tbp : k <= h \/ k > highest }
          IN [tmp |-> Restrict(tmp, (DOMAIN tmp) \ dueMp),
              tbp |-> Restrict(tbp, (DOMAIN tbp) \ dueBp),
              note |-> [fire |-> TRUE, h |-> h,
                        toks |-> UnionOver(tmp, dueMp) \cup UnionOver(tbp, dueBp)]]

OnMempool(tmp, tbp, highest, toks, h, variant) ==
  MaybeNotify(Put(tmp, h, toks, variant), tbp, highest, variant)

OnBlock(tmp, tbp, toks, h, variant) ==
  MaybeNotify(tmp, Put(tbp, h, toks, variant), h, variant)
=============================================================================
