--------------------------- MODULE NotifyEnvTrace ---------------------------
(* Code -> spec validation of the ENVIRONMENT part of Notify.tla: the sequence of calls       *)
(* recorded at the boundary of the real Notifications object in full-stack runs (real        *)
(* BlockProcessor, MemPool and SessionManager start-up) must be a behaviour of the model of   *)
(* its callers.  Only the calls are logged; the block processor / daemon / refresh steps in   *)
(* between are inferred by TLC (silent steps).  A trace is accepted when TLC can consume it   *)
(* completely, which it reports as a violation of NotConsumed (the witness behaviour is the   *)
(* explanation); a rejected trace would mean "permitted by the surrounding system" in C20 is  *)
(* assumed rather than checked.                                                             *)
EXTENDS Notify, IOUtils

Traces == JsonDeserialize(IOEnv.TRACE_FILE)
VARIABLES tid, l
tvars == <<vars, tid, l>>
T == Traces[tid]

TInit == Init /\ tid \in 1..Len(Traces) /\ l = 1 /\ daemonH = 0
Silent == DaemonMove \/ BPPoll \/ BPAdvance \/ BPMidFlush \/ BPCuFlush \/ BPReorgStart \/ BPBackup \/ MPCapture
Logged(ev) == l <= Len(T) /\ T[l].ev = ev /\ l' = l + 1 /\ UNCHANGED tid
TNext == \/ (Silent /\ UNCHANGED <<tid, l>>)
         \/ (Logged("blk") /\ mem = T[l].h /\ BPCuNotify)
         \/ (Logged("mp") /\ mpH = T[l].h /\ MPDeliver)
         \/ (Logged("start") /\ stored = T[l].h /\ Start)
TSpec == TInit /\ [][TNext]_tvars
NotConsumed == l <= Len(T)
=============================================================================
