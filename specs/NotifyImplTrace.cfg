CONSTANT Variant = "fixed"
SPECIFICATION Spec
INVARIANT NotStuck
CHECK_DEADLOCK FALSE
