--------------------------- MODULE NotifyImplTrace ---------------------------
(* Implementation-level conformance: the recorded dictionaries of the real object must  *)
(* follow NotifyClass step by step.  A mismatch is MODEL-DRIFT, not a violation.         *)
EXTENDS NotifyClass, Sequences, SequencesExt, Json, IOUtils, TLC
CONSTANT Variant
Traces == JsonDeserialize(IOEnv.TRACE_FILE)

VARIABLES tid, l, tmp, tbp, highest, started
vars == <<tid, l, tmp, tbp, highest, started>>

FromPairs(seq) == [h \in { p[1] : p \in ToSet(seq) } |->
                     ToSet((CHOOSE p \in ToSet(seq) : p[1] = h)[2])]

Init == /\ tid \in 1..Len(Traces) /\ l = 1
        /\ tmp = Empty /\ tbp = Empty /\ highest = -1 /\ started = FALSE

Steps == Traces[tid].steps

Matches(e, r, hi, st) ==
  /\ FromPairs(e.tmp) = r.tmp /\ FromPairs(e.tbp) = r.tbp /\ e.highest = hi
  /\ LET note == IF st THEN r.note ELSE NoNote
     IN IF note.fire THEN e.nh = note.h /\ ToSet(e.ntoks) = note.toks ELSE e.nh = -1

Next ==
  /\ l <= Len(Steps) /\ l' = l + 1 /\ UNCHANGED tid
  /\ LET e == Steps[l] IN
     \/ /\ e.ev = "mp"
        /\ LET r == OnMempool(tmp, tbp, highest, ToSet(e.toks), e.h, Variant)
           IN /\ Matches(e, r, highest, started)
              /\ tmp' = r.tmp /\ tbp' = r.tbp /\ UNCHANGED <<highest, started>>
     \/ /\ e.ev = "blk"
        /\ LET r == OnBlock(tmp, tbp, ToSet(e.toks), e.h, Variant)
           IN /\ Matches(e, r, e.h, started)
              /\ tmp' = r.tmp /\ tbp' = r.tbp /\ highest' = e.h /\ UNCHANGED started
     \/ /\ e.ev = "start"
        /\ e.highest = e.h /\ FromPairs(e.tmp) = tmp /\ FromPairs(e.tbp) = tbp
        /\ highest' = e.h /\ started' = TRUE /\ UNCHANGED <<tmp, tbp>>

Spec == Init /\ [][Next]_vars
NotStuck == l <= Len(Steps) => ENABLED Next
=============================================================================
