SPECIFICATION Spec
INVARIANT OnlyAgreed
INVARIANT NothingLost
CHECK_DEADLOCK FALSE
