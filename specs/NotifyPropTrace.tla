--------------------------- MODULE NotifyPropTrace ---------------------------
(* Property-level monitor for C20 over call/notification sequences recorded at the      *)
(* boundary of the real Notifications object.  It knows nothing about how the class     *)
(* works: it only keeps what was handed over / reported and what was notified.          *)
EXTENDS Integers, Sequences, FiniteSets, SequencesExt, Json, IOUtils, TLC

Traces == JsonDeserialize(IOEnv.TRACE_FILE)

VARIABLES tid, l, started, mpSeen, bpSeen, startH, lastMp, lastBp, handed, notified, lastNote,
          mpSince, bpSince
vars == <<tid, l, started, mpSeen, bpSeen, startH, lastMp, lastBp, handed, notified, lastNote,
          mpSince, bpSince>>

None == [fire |-> FALSE, h |-> 0, toks |-> {}]

Init ==
  /\ tid \in 1..Len(Traces) /\ l = 1
  /\ started = FALSE /\ mpSeen = {} /\ bpSeen = {} /\ startH = -1 /\ lastMp = -1 /\ lastBp = -1
  /\ handed = {} /\ notified = {} /\ lastNote = None /\ mpSince = {} /\ bpSince = {}

Steps == Traces[tid].steps

\* every step: [ev, h, toks, nh, ntoks]  (nh = -1: no notification was issued by the call)
Next ==
  /\ l <= Len(Steps) /\ l' = l + 1 /\ UNCHANGED tid
  /\ LET e == Steps[l]
         toks == ToSet(e.toks)
         note == IF e.nh >= 0 THEN [fire |-> TRUE, h |-> e.nh, toks |-> ToSet(e.ntoks)] ELSE None
     IN /\ started' = (started \/ e.ev = "start")
        /\ startH' = IF e.ev = "start" THEN e.h ELSE startH
        /\ mpSeen' = IF e.ev = "mp" THEN mpSeen \cup {e.h} ELSE mpSeen
        /\ bpSeen' = IF e.ev = "blk" THEN bpSeen \cup {e.h} ELSE bpSeen
        /\ lastMp' = IF e.ev = "mp" THEN e.h ELSE lastMp
        /\ lastBp' = IF e.ev \in {"blk", "start"} THEN e.h ELSE lastBp
        /\ handed' = IF started /\ e.ev # "start" THEN handed \cup toks ELSE handed
        \* the empty start-up notification only refreshes the tip: exempt from OnlyAgreed
        /\ lastNote' = IF e.ev = "start" THEN None ELSE note
        /\ notified' = IF note.fire THEN notified \cup note.toks ELSE notified
        /\ mpSince' = IF note.fire \/ ~started' \/ e.ev = "start" THEN {}
                      ELSE IF e.ev = "mp" THEN mpSince \cup {e.h} ELSE mpSince
        /\ bpSince' = IF note.fire \/ ~started' \/ e.ev = "start" THEN {}
                      ELSE IF e.ev = "blk" THEN bpSince \cup {e.h} ELSE bpSince

Spec == Init /\ [][Next]_vars

OnlyAgreed ==
  lastNote.fire => /\ lastNote.h \in mpSeen
                   /\ (lastNote.h \in bpSeen \/ lastNote.h = startH)
NothingLost ==
  (/\ started /\ lastMp = lastBp
   /\ \/ (lastNote.fire /\ lastNote.h = lastBp)
      \/ (lastBp \in mpSince /\ lastBp \in bpSince))
  => handed \subseteq notified
NotStuck == TRUE
=============================================================================
