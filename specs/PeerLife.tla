------------------------------ MODULE PeerLife ------------------------------
(* peers.py: the life of a known peer - PeerManager._note_peers, _monitor_peer,              *)
(* _should_drop_peer and _verify_peer - and what on_peers_subscribe advertises meanwhile.    *)
(*                                                                                           *)
(* One action per critical section of the code (asyncio: a critical section is the code      *)
(* between two suspension points):                                                           *)
(*   Conn(p, o)  a connection of the current attempt is made; the remote end behaves as o.   *)
(*               For an established session the code at once evaluates the internal-bucket   *)
(*               rule against the peers that are good *now* (the FIXME race in the source    *)
(*               is this step being separate from Done).  The first Conn of an attempt is    *)
(*               also the wake-up of the monitor task: it happens exactly at wake[p].        *)
(*   Note(p, g)  the remote's peers.subscribe list g is processed: at most two unknown       *)
(*               peers are adopted, each gets its own monitor which is due immediately.      *)
(*   Done(p)     the attempt's bookkeeping: good (try_count 0, last_good now, next check     *)
(*               shortly before it turns stale), marked bad, forgotten (3 tries; 10 if it    *)
(*               was ever good and is not bad) or backed off (WAKEUP * 2^tries).             *)
(* Time is the virtual clock in seconds; all steps of one attempt happen at one instant      *)
(* (the harness's remote ends answer immediately), time moves only to the next wake-up.      *)
(*                                                                                           *)
(* Ghost variables record what the remote ends really did: okT/okSeq the last established    *)
(* session to a remote that answers every check correctly, hardSeq the last established      *)
(* session to a remote that fails a check (wrong genesis, height far off, different header,  *)
(* host not listed, wrong result type) whose attempt has concluded.                           *)
EXTENDS Integers, Sequences, FiniteSets, TLC, Json

CONSTANTS Known0,      \* peers imported at start-up (0 is the server's own identity)
          Universe,    \* peers that may ever be known
          GossipSets,  \* the lists a remote may report
          MaxConns,    \* model-checking bound on connections
          Outcomes,    \* how a remote end may behave on a connection
          Variant,     \* "code", or "nomark": a failed check does not mark the peer bad (must violate OnlyVerified)
          Export

WAKEUP == 300
STALE == 10800
PAUSEGOOD == STALE - 2 * WAKEUP
NTuples == 4                                   \* SSL, TCP x IPv4, IPv6 for a host name with both ports
T0 == 20000
(* peers 1 and 2 are two host names on one IP address; 3 and 4 are different addresses of one /16 *)
Ip == [p \in 0..4 |-> <<7, 1, 1, 3, 4>>[p + 1]]
Ext == [p \in 0..4 |-> <<7, 1, 1, 3, 3>>[p + 1]]
Hard == {"badgenesis", "badheight", "badheader", "notlisted", "badtype"}
Remote == Outcomes
RECURSIVE Pow2(_)
Pow2(n) == IF n = 0 THEN 1 ELSE 2 * Pow2(n - 1)
Min2(a, b) == IF a < b THEN a ELSE b

VARIABLES now, st, ci, pend, noted, tries, lastGood, bad, wake,
          okT, okSeq, hardSeq, clean, seq, conns, hist
impl == <<now, st, ci, pend, noted, tries, lastGood, bad, wake>>
ghost == <<okT, okSeq, hardSeq, clean, seq, conns>>
vars == <<impl, ghost, hist>>
View == <<impl, ghost>>

P == Universe
Init ==
  /\ now = T0
  /\ st = [p \in P |-> IF p \in Known0 THEN "sleeping" ELSE "absent"]
  /\ ci = [p \in P |-> 0] /\ pend = [p \in P |-> "none"] /\ noted = [p \in P |-> FALSE]
  /\ tries = [p \in P |-> 0] /\ lastGood = [p \in P |-> 0] /\ bad = [p \in P |-> FALSE]
  /\ wake = [p \in P |-> T0]
  /\ okT = [p \in P |-> 0] /\ okSeq = [p \in P |-> 0] /\ hardSeq = [p \in P |-> 0]
  /\ clean = [p \in P |-> TRUE] /\ seq = 0 /\ conns = 0 /\ hist = <<>>

RecentGood(t) == { p \in P : st[p] # "absent" /\ lastGood[p] > t - STALE /\ ~bad[p] }
(* the instant the clock may move to: nobody is in the middle of an attempt, nobody is due earlier *)
CanAdvanceTo(t) == /\ t >= now
                   /\ t > now => \A q \in P : /\ st[q] # "trying"
                                              /\ st[q] = "sleeping" => wake[q] >= t

Conflict(p, t) == \E q \in RecentGood(t) \ {p} : Ip[q] = Ip[p]

Conn(p, o) ==
  /\ conns < MaxConns
  /\ \/ /\ st[p] = "sleeping" /\ CanAdvanceTo(wake[p])                   \* the monitor wakes: a new attempt
        /\ now' = wake[p] /\ tries' = [tries EXCEPT ![p] = @ + 1] /\ ci' = [ci EXCEPT ![p] = 1]
        /\ st' = [st EXCEPT ![p] = "trying"]
     \/ /\ st[p] = "trying" /\ pend[p] = "soft" /\ ci[p] < NTuples        \* next connection tuple of the attempt
        /\ ci' = [ci EXCEPT ![p] = @ + 1] /\ UNCHANGED <<now, tries, st>>
  /\ LET cf == o # "connfail" /\ Conflict(p, now')
         r == IF o = "connfail" THEN "soft" ELSE IF cf THEN "bucket" ELSE IF o = "rpcerr" THEN "soft"
              ELSE IF o \in Hard THEN "hard" ELSE "ok"
     IN /\ pend' = [pend EXCEPT ![p] = r]
        /\ clean' = [clean EXCEPT ![p] = @ /\ r = "ok"]
  /\ noted' = [noted EXCEPT ![p] = FALSE]
  /\ seq' = seq + 1 /\ conns' = conns + 1
  /\ okT' = IF o = "ok" THEN [okT EXCEPT ![p] = now'] ELSE okT
  /\ okSeq' = IF o = "ok" THEN [okSeq EXCEPT ![p] = seq + 1] ELSE okSeq
  /\ hist' = Append(hist, [ev |-> "conn", p |-> p, o |-> o])
  /\ UNCHANGED <<lastGood, bad, wake, hardSeq>>

Fresh(S) == /\ st' = [q \in P |-> IF q \in S THEN "sleeping" ELSE st[q]]
            /\ wake' = [q \in P |-> IF q \in S THEN now ELSE wake[q]]
(* _note_peers(peers) from _verify_peer (limit 2) *)
Note(p, g) ==
  /\ st[p] = "trying" /\ pend[p] = "ok" /\ ~noted[p]
  /\ 0 \in g => st[0] # "absent"                 \* (a remote never introduces our own host name as a stranger)
  /\ LET new == { q \in g : st[q] = "absent" }
     IN \E added \in SUBSET new : /\ Cardinality(added) = Min2(2, Cardinality(new))
                                  /\ Fresh(added)
                                  /\ hist' = Append(hist, [ev |-> "note", p |-> p, g |-> g])
  /\ noted' = [noted EXCEPT ![p] = TRUE]
  /\ UNCHANGED <<now, ci, pend, tries, lastGood, bad, okT, okSeq, hardSeq, clean, seq, conns>>

Done(p) ==
  /\ st[p] = "trying"
  /\ \/ pend[p] \in {"hard", "bucket"} \/ (pend[p] = "ok" /\ noted[p]) \/ (pend[p] = "soft" /\ ci[p] = NTuples)
  /\ IF pend[p] = "ok"
     THEN /\ tries' = [tries EXCEPT ![p] = 0] /\ lastGood' = [lastGood EXCEPT ![p] = now]
          /\ wake' = [wake EXCEPT ![p] = now + PAUSEGOOD] /\ st' = [st EXCEPT ![p] = "sleeping"]
          /\ UNCHANGED bad
     ELSE LET b == bad[p] \/ (pend[p] \in {"hard", "bucket"} /\ Variant # "nomark")
              limit == IF lastGood[p] # 0 /\ ~b THEN 10 ELSE 3
          IN IF tries[p] >= limit
             THEN /\ st' = [st EXCEPT ![p] = "absent"] /\ tries' = [tries EXCEPT ![p] = 0]
                  /\ bad' = [bad EXCEPT ![p] = FALSE]
                  /\ lastGood' = [lastGood EXCEPT ![p] = IF p = 0 THEN @ ELSE 0]   \* (the own identity object lives on)
                  /\ wake' = [wake EXCEPT ![p] = 0]
             ELSE /\ st' = [st EXCEPT ![p] = "sleeping"] /\ bad' = [bad EXCEPT ![p] = b]
                  /\ wake' = [wake EXCEPT ![p] = now + WAKEUP * Pow2(tries[p])]
                  /\ UNCHANGED <<tries, lastGood>>
  /\ pend' = [pend EXCEPT ![p] = "none"] /\ ci' = [ci EXCEPT ![p] = 0]
  /\ hist' = hist
  /\ (Export /\ conns = MaxConns => PrintT(<<"LIFE", ToJson(hist)>>))
  \* (ghost) the attempt on a remote end that fails a check has concluded
  /\ hardSeq' = IF pend[p] = "hard" THEN [hardSeq EXCEPT ![p] = seq + 1] ELSE hardSeq
  /\ seq' = seq + 1
  /\ UNCHANGED <<now, noted, okT, okSeq, clean, conns>>

Next == \/ \E p \in P, o \in Remote : Conn(p, o)
        \/ \E p \in P, g \in GossipSets : Note(p, g)
        \/ \E p \in P : Done(p)
Spec == Init /\ [][Next]_vars

(* --- what on_peers_subscribe may return at time t (clear-net peers only here) *)
OwnAdvertised(t) == IF 0 \in P /\ lastGood[0] > t - STALE THEN {0} ELSE {}
Advertisable(t) == RecentGood(t) \cup OwnAdvertised(t)
IsAdvertised(res, t) ==
  /\ res \subseteq Advertisable(t) /\ OwnAdvertised(t) \subseteq res
  /\ \A b \in { Ext[p] : p \in RecentGood(t) } :
       LET inb == { p \in RecentGood(t) : Ext[p] = b }
       IN Cardinality((res \ OwnAdvertised(t)) \cap inb) >= Min2(2, Cardinality(inb \ OwnAdvertised(t)))
          /\ Cardinality((res \ OwnAdvertised(t)) \cap inb) <= 2

(* --- properties *)
NextEvent == IF \E q \in P : st[q] = "trying" THEN now
             ELSE IF \E q \in P : st[q] = "sleeping"
                  THEN CHOOSE w \in { wake[q] : q \in { r \in P : st[r] = "sleeping" } } :
                         \A q \in P : st[q] = "sleeping" => wake[q] >= w
                  ELSE now + 2 * STALE
CriticalTimes == { t \in {now, NextEvent} \cup UNION { { okT[p] + STALE - 1, okT[p] + STALE, lastGood[p] + STALE - 1,
                                                           lastGood[p] + STALE } : p \in P } : t >= now /\ t <= NextEvent }
Allowed(p, t) == okT[p] > t - STALE /\ (p = 0 \/ okSeq[p] > hardSeq[p])
(* C19, first clause, over the life of the peers: whatever may be advertised was verified recently and has not since
   been seen to fail a check *)
OnlyVerified == \A t \in CriticalTimes : \A p \in Advertisable(t) : Allowed(p, t)
(* a peer whose remote end always behaves is, once verified, advertisable without interruption: it is re-verified
   before it turns stale *)
GoodStaysAdvertised == \A p \in P : (clean[p] /\ lastGood[p] # 0 /\ st[p] # "absent")
                                       => \A t \in CriticalTimes : p \in RecentGood(t)
TriesBounded == \A p \in P : /\ tries[p] <= 10
                             /\ (st[p] = "sleeping" /\ (bad[p] \/ lastGood[p] = 0)) => tries[p] < 3
(* the internal bucket rule (one good peer per IP address).  NOT an invariant: the source says so itself
   ("FIXME there's a race here, when verifying multiple peers that belong to the same bucket ~simultaneously");
   checked as an expected violation so that the model demonstrably contains that interleaving *)
BucketExclusive == \A p, q \in RecentGood(now) : p # q => Ip[p] # Ip[q]
TypeOK == /\ st \in [P -> {"absent", "sleeping", "trying"}] /\ ci \in [P -> 0..NTuples]
          /\ pend \in [P -> {"none", "soft", "hard", "bucket", "ok"}]
=============================================================================
