SPECIFICATION Spec
INVARIANT OnlyVerifiedAdvertised
INVARIANT TwoPerBucket
CHECK_DEADLOCK FALSE
