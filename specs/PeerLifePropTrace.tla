------------------------- MODULE PeerLifePropTrace -------------------------
(* Property-level monitor (decisive) for C19's first clause over the life of the peers.  It  *)
(* knows nothing of PeerManager's state: from the recorded behaviour of the remote ends (a   *)
(* connection was established to a remote that answers every check correctly / that fails a  *)
(* check; an attempt has concluded) it derives who may be advertised, and compares with what *)
(* on_peers_subscribe really returned:                                                        *)
(*   a returned peer had a session, within the last STALE seconds, with a remote end that    *)
(*   passes every check, and no attempt on a remote end failing a check has concluded since  *)
(*   (for the server's own identity only the first half is required);                        *)
(*   never more than two returned peers (other than the own identity) per /16.               *)
EXTENDS Integers, Sequences, FiniteSets, SequencesExt, Json, IOUtils, TLC
Traces == JsonDeserialize(IOEnv.TRACE_FILE)
STALE == 10800
P == 0..4
Ext == [p \in 0..4 |-> <<7, 1, 1, 3, 3>>[p + 1]]
Hard == {"badgenesis", "badheight", "badheader", "notlisted", "badtype"}
VARIABLES tid, l, okT, okSeq, hardSeq, hardPending, lastRes, lastT
vars == <<tid, l, okT, okSeq, hardSeq, hardPending, lastRes, lastT>>
Steps == Traces[tid].steps
E == Steps[l]
Init == /\ tid \in 1..Len(Traces) /\ l = 1
        /\ okT = [p \in P |-> 0] /\ okSeq = [p \in P |-> 0] /\ hardSeq = [p \in P |-> 0]
        /\ hardPending = [p \in P |-> FALSE] /\ lastRes = {} /\ lastT = 0
Next ==
  /\ l <= Len(Steps) /\ l' = l + 1 /\ UNCHANGED tid
  /\ \/ /\ E.ev = "conn"
        /\ okT' = IF E.o = "ok" THEN [okT EXCEPT ![E.p] = E.t] ELSE okT
        /\ okSeq' = IF E.o = "ok" THEN [okSeq EXCEPT ![E.p] = l] ELSE okSeq
        /\ hardPending' = [hardPending EXCEPT ![E.p] = (E.o \in Hard)]
        /\ lastRes' = {} /\ UNCHANGED <<hardSeq, lastT>>
     \/ /\ E.ev = "done"
        /\ hardSeq' = IF hardPending[E.p] THEN [hardSeq EXCEPT ![E.p] = l] ELSE hardSeq
        /\ hardPending' = [hardPending EXCEPT ![E.p] = FALSE]
        /\ lastRes' = {} /\ UNCHANGED <<okT, okSeq, lastT>>
     \/ /\ E.ev = "query"
        /\ lastRes' = ToSet(E.res) /\ lastT' = E.t
        /\ UNCHANGED <<okT, okSeq, hardSeq, hardPending>>
     \/ /\ E.ev = "note"
        /\ lastRes' = {} /\ UNCHANGED <<okT, okSeq, hardSeq, hardPending, lastT>>
Spec == Init /\ [][Next]_vars
Allowed(p, t) == okT[p] > t - STALE /\ (p = 0 \/ okSeq[p] > hardSeq[p])
(* lastRes is the answer of the query just consumed (emptied by every other step: an answer is judged against what
   was known when it was given) *)
OnlyVerifiedAdvertised == \A p \in lastRes : Allowed(p, lastT)
TwoPerBucket == \A b \in { Ext[p] : p \in lastRes \ {0} } : Cardinality({ p \in lastRes \ {0} : Ext[p] = b }) <= 2
=============================================================================
