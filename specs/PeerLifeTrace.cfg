CONSTANTS Known0 = {} Universe = {0, 1, 2, 3, 4} GossipSets = {} MaxConns = 100000 Variant = "code" Export = FALSE
Outcomes = {"connfail", "rpcerr", "ok", "badgenesis", "badheight", "badheader", "notlisted", "badtype"}
SPECIFICATION TSpec
INVARIANT NotStuck
INVARIANT GoodStaysAdvertised
INVARIANT TriesBounded
CHECK_DEADLOCK FALSE
