--------------------------- MODULE PeerLifeTrace ---------------------------
(* Implementation-level conformance of recorded PeerManager runs with PeerLife.tla: every    *)
(* recorded connection, processed peer list, end of attempt (with try_count, bad, last_good   *)
(* and whether the peer was forgotten) and every answer of on_peers_subscribe must be a step  *)
(* of the specification at exactly the recorded virtual time - which checks the wake-up and   *)
(* back-off schedule too.  A mismatch is MODEL-DRIFT, not a violation.                        *)
EXTENDS PeerLife, SequencesExt, IOUtils
Traces == JsonDeserialize(IOEnv.TRACE_FILE)
VARIABLES tid, l
tvars == <<vars, tid, l>>
Steps == Traces[tid].steps
E == Steps[l]
TInit ==
  /\ tid \in 1..Len(Traces) /\ l = 1
  /\ now = T0
  /\ st = [p \in P |-> IF p \in ToSet(Traces[tid].known0) THEN "sleeping" ELSE "absent"]
  /\ ci = [p \in P |-> 0] /\ pend = [p \in P |-> "none"] /\ noted = [p \in P |-> FALSE]
  /\ tries = [p \in P |-> 0] /\ lastGood = [p \in P |-> 0] /\ bad = [p \in P |-> FALSE]
  /\ wake = [p \in P |-> T0]
  /\ okT = [p \in P |-> 0] /\ okSeq = [p \in P |-> 0] /\ hardSeq = [p \in P |-> 0]
  /\ clean = [p \in P |-> TRUE] /\ seq = 0 /\ conns = 0 /\ hist = <<>>
TConn == E.ev = "conn" /\ Conn(E.p, E.o) /\ now' = E.t
TNote == /\ E.ev = "note" /\ E.t = now /\ Note(E.p, ToSet(E.g))
         /\ { q \in P : st[q] = "absent" /\ st'[q] # "absent" } = ToSet(E.added)
TDone == /\ E.ev = "done" /\ E.t = now /\ Done(E.p)
         /\ (st'[E.p] = "absent") = (E.dropped = 1)
         /\ E.dropped = 0 => /\ tries'[E.p] = E.tries /\ bad'[E.p] = (E.bad = 1) /\ lastGood'[E.p] = E.lg
TQuery == /\ E.ev = "query" /\ CanAdvanceTo(E.t) /\ now' = E.t
          /\ IsAdvertised(ToSet(E.res), E.t)
          /\ UNCHANGED <<st, ci, pend, noted, tries, lastGood, bad, wake, ghost, hist>>
TNext == /\ l <= Len(Steps) /\ l' = l + 1 /\ UNCHANGED tid
         /\ (TConn \/ TNote \/ TDone \/ TQuery)
TSpec == TInit /\ [][TNext]_tvars
NotStuck == l <= Len(Steps) => ENABLED TNext
(* the model's own properties, evaluated on the recorded run *)
=============================================================================
