-------------------------------- MODULE Peers --------------------------------
(* peers.py: _get_recent_good_peers / on_peers_subscribe over a population of known peers,  *)
(* and peer.py: what a Peer built from an announced feature dictionary reports.             *)
(* Catalogue entries are concrete kinds of peers (the harness gives each a real address in  *)
(* the network bucket its kind names); a population assigns each entry a state.             *)
EXTENDS Integers, Sequences, FiniteSets, TLC, Json

CONSTANTS MaxPresent,     \* peers present in a population
          Use,            \* catalogue entries (indices) that may be present
          PresentStates,  \* states a present peer may be in
          Export

(* kind -> [bucket, public, onion]; three IPv4 peers share a /16, three IPv6 peers share a /56 across different /64s *)
Catalogue == <<
  [k |-> "v4a1", bucket |-> "a", public |-> TRUE, onion |-> FALSE],
  [k |-> "v4a2", bucket |-> "a", public |-> TRUE, onion |-> FALSE],
  [k |-> "v4a3", bucket |-> "a", public |-> TRUE, onion |-> FALSE],
  [k |-> "v4b", bucket |-> "b", public |-> TRUE, onion |-> FALSE],
  [k |-> "v4priv", bucket |-> "p", public |-> FALSE, onion |-> FALSE],
  [k |-> "v4cgnat", bucket |-> "q", public |-> FALSE, onion |-> FALSE],
  [k |-> "v6c1", bucket |-> "c", public |-> TRUE, onion |-> FALSE],
  [k |-> "v6c2", bucket |-> "c", public |-> TRUE, onion |-> FALSE],
  [k |-> "v6c3", bucket |-> "c", public |-> TRUE, onion |-> FALSE],
  [k |-> "v6d", bucket |-> "d", public |-> TRUE, onion |-> FALSE],
  [k |-> "host", bucket |-> "h", public |-> TRUE, onion |-> FALSE],
  [k |-> "localhost", bucket |-> "l", public |-> FALSE, onion |-> FALSE],
  [k |-> "onion1", bucket |-> "onion", public |-> TRUE, onion |-> TRUE],
  [k |-> "onion2", bucket |-> "onion", public |-> TRUE, onion |-> TRUE] >>
NC == Len(Catalogue)
States == {"absent", "good", "stale", "never", "goodbad"}
ExtraOnion == {0, 12, 60}

VARIABLES pop, extra, own, tor, result, done
vars == <<pop, extra, own, tor, result, done>>
Populations == UNION { { [i \in 1..NC |-> IF i \in S THEN f[i] ELSE "absent"] : f \in [S -> PresentStates] } :
                         S \in { T \in SUBSET Use : Cardinality(T) <= MaxPresent } }
Init == /\ pop \in Populations
        /\ extra \in ExtraOnion /\ own \in {"good", "stale"} /\ tor \in BOOLEAN
        /\ result = {} /\ done = FALSE
Recent == { i \in 1..NC : pop[i] = "good" /\ Catalogue[i].public }
ClearBuckets == { Catalogue[i].bucket : i \in { j \in Recent : ~Catalogue[j].onion } }
(* on_peers_subscribe: two of each clearnet bucket, then onion peers up to the cap (ids > 100 are the extra onion peers) *)
Subscribe ==
  /\ ~done /\ done' = TRUE
  /\ \E clear \in SUBSET { i \in Recent : ~Catalogue[i].onion } :
       /\ \A b \in ClearBuckets :
            LET inb == { i \in Recent : ~Catalogue[i].onion /\ Catalogue[i].bucket = b }
            IN Cardinality(clear \cap inb) = IF Cardinality(inb) < 2 THEN Cardinality(inb) ELSE 2
       /\ LET npeers == Cardinality(clear) + (IF own = "good" THEN 1 ELSE 0)
              cap == IF tor THEN 50 ELSE (IF npeers \div 4 > 10 THEN npeers \div 4 ELSE 10)
              cat == { i \in Recent : Catalogue[i].onion }
              take == IF Cardinality(cat) + extra < cap THEN Cardinality(cat) + extra ELSE cap
          IN \* any 'take' of the onion peers (catalogue ones and the 'extra' anonymous ones)
             \E os \in SUBSET cat : /\ Cardinality(os) <= take /\ take - Cardinality(os) <= extra
                                    /\ result' = clear \cup os
  /\ (Export => PrintT(<<"POP", ToJson([pop |-> pop, extra |-> extra, own |-> own, tor |-> tor])>>))
  /\ UNCHANGED <<pop, extra, own, tor>>
Next == Subscribe
Spec == Init /\ [][Next]_vars

(* C19, first clause, on the catalogue peers of the result *)
OnlyRecentGoodPublic == \A i \in result : pop[i] = "good" /\ Catalogue[i].public
TwoPerBucket == \A b \in ClearBuckets : Cardinality({ i \in result : ~Catalogue[i].onion /\ Catalogue[i].bucket = b }) <= 2
=============================================================================
