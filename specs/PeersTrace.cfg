SPECIFICATION Spec
INVARIANT OnlyRecentGoodPublic
INVARIANT TwoPerBucket
INVARIANT OnionBounded
INVARIANT NoDuplicates
INVARIANT PortsValidOrAbsent
INVARIANT PublicOnlyIfRoutable
CHECK_DEADLOCK FALSE
