------------------------------ MODULE PeersTrace ------------------------------
(* Validation of what the real PeerManager.on_peers_subscribe returned for a population     *)
(* (each catalogue peer concretised by the harness with an address in the bucket its kind    *)
(* names; buckets are computed by the harness from the integer addresses, not by the code), *)
(* and of Peers built by Peer.peers_from_features from announced feature dictionaries.       *)
EXTENDS Integers, Sequences, FiniteSets, Json, IOUtils, TLC
Recs == JsonDeserialize(IOEnv.TRACE_FILE)
VARIABLES tid, l
vars == <<tid, l>>
Init == tid \in 1..Len(Recs) /\ l = 1
Next == UNCHANGED vars
Spec == Init /\ [][Next]_vars
R == Recs[tid]
Set(s) == { s[k] : k \in 1..Len(s) }

(* each returned entry: [name, state, bad, public, bucket, onion, own] *)
OnlyRecentGoodPublic ==
  R.kind = "subscribe" => \A k \in 1..Len(R.result) :
    LET p == R.result[k] IN \/ (p[2] = "good" /\ p[3] = 0 /\ p[4] = 1)        \* verified recently, not bad, public
                            \/ (p[7] = 1 /\ p[2] = "good")                     \* the server's own recently verified identity
TwoPerBucket ==
  R.kind = "subscribe" =>
    \A b \in { R.result[k][5] : k \in { j \in 1..Len(R.result) : R.result[j][6] = 0 /\ R.result[j][7] = 0 } } :
      Cardinality({ k \in 1..Len(R.result) : R.result[k][5] = b /\ R.result[k][6] = 0 /\ R.result[k][7] = 0 }) <= 2
OnionBounded ==
  R.kind = "subscribe" =>
    LET nonion == Cardinality({ k \in 1..Len(R.result) : R.result[k][6] = 1 })
        nclear == Cardinality({ k \in 1..Len(R.result) : R.result[k][6] = 0 })
        cap == IF R.tor THEN 50 ELSE (IF nclear \div 4 > 10 THEN nclear \div 4 ELSE 10)
    IN nonion <= cap
NoDuplicates == R.kind = "subscribe" => Cardinality({ R.result[k][1] : k \in 1..Len(R.result) }) = Len(R.result)
(* second clause: [host_public_expected, tcp (0 = absent), ssl, tcp_expected_valid, ssl_expected_valid, tcp_given, ssl_given] *)
PortsValidOrAbsent ==
  R.kind = "feature" => /\ (R.tcp = 0 \/ (R.tcp >= 1 /\ R.tcp <= 65535)) /\ (R.ssl = 0 \/ (R.ssl >= 1 /\ R.ssl <= 65535))
                        /\ R.tcp_int = 1 /\ R.ssl_int = 1
                        /\ (R.tcp_expect >= 0 => R.tcp = R.tcp_expect) /\ (R.ssl_expect >= 0 => R.ssl = R.ssl_expect)
PublicOnlyIfRoutable == R.kind = "feature" => R.public = R.public_expect
=============================================================================
