------------------------------- MODULE Requests -------------------------------
(* The request surface of an ElectrumX session (session.py: set_request_handlers and the    *)
(* argument validators scripthash_to_hashX, non_negative_integer, assert_tx_hash,            *)
(* assert_raw_bytes, assert_boolean): every protocol method with the kind of each            *)
(* parameter, a finite alphabet of JSON value shapes, and what a request may do:            *)
(*   - whatever the arguments, the outcome is a result or a protocol error, never an         *)
(*     internal error;                                                                      *)
(*   - when an argument is malformed for its parameter (no validator can accept it), nothing *)
(*     changes: not the requester's subscriptions, not the shared caches, not what another  *)
(*     client with live subscriptions is told.                                              *)
(* TLC enumerates every (method, shape vector) and, for the headers method, the limit       *)
(* clause of C17 over (start, count, cp_height) around the chain end and the 2016 cap.      *)
EXTENDS Integers, Sequences, FiniteSets, TLC, Json

CONSTANTS Pairwise, Export      \* Pairwise: beyond two parameters only vary two positions at a time

Shapes == {"int_ok", "int_zero", "int_neg", "int_huge", "int_400digits", "bool_true", "bool_false", "float_frac", "float_inf",
           "float_nan", "float_1e999", "str_intlike", "str_hex64", "str_hex64_known", "str_hex_odd", "str_hex62", "str_hex66",
           "str_hex128", "str_nonhex", "str_empty", "str_enum", "null", "list", "dict", "nested"}
(* parameter kinds and the shapes some validator accepts for them (lenient conversions included) *)
Accepts(kind) ==
  CASE kind = "height" -> {"int_ok", "int_zero", "int_huge", "int_400digits", "bool_true", "bool_false", "float_frac", "str_intlike"}
    [] kind = "hash" -> {"str_hex64", "str_hex64_known"}
    [] kind = "bool" -> {"bool_true", "bool_false", "int_zero"}
    [] kind = "rawtx" -> {"str_hex64", "str_hex64_known", "str_hex62", "str_hex66", "str_hex128", "str_empty"}
    [] kind = "enum" -> Shapes
    [] kind = "any" -> Shapes
    [] kind = "features" -> {"dict"}
Methods == <<
  [m |-> "blockchain.block.header", p |-> <<"height", "height">>, min |-> 1],
  [m |-> "blockchain.block.headers", p |-> <<"height", "height", "height">>, min |-> 2],
  [m |-> "blockchain.estimatefee", p |-> <<"any">>, min |-> 1],
  [m |-> "blockchain.headers.subscribe", p |-> <<>>, min |-> 0],
  [m |-> "blockchain.relayfee", p |-> <<>>, min |-> 0],
  [m |-> "blockchain.scripthash.get_balance", p |-> <<"hash">>, min |-> 1],
  [m |-> "blockchain.scripthash.get_history", p |-> <<"hash">>, min |-> 1],
  [m |-> "blockchain.scripthash.get_mempool", p |-> <<"hash">>, min |-> 1],
  [m |-> "blockchain.scripthash.listunspent", p |-> <<"hash">>, min |-> 1],
  [m |-> "blockchain.scripthash.subscribe", p |-> <<"hash">>, min |-> 1],
  [m |-> "blockchain.scripthash.unsubscribe", p |-> <<"hash">>, min |-> 1],
  [m |-> "blockchain.transaction.broadcast", p |-> <<"rawtx">>, min |-> 1],
  [m |-> "blockchain.transaction.get", p |-> <<"hash", "bool">>, min |-> 1],
  [m |-> "blockchain.transaction.get_merkle", p |-> <<"hash", "height">>, min |-> 2],
  [m |-> "blockchain.transaction.get_tsc_merkle", p |-> <<"hash", "height", "enum", "enum">>, min |-> 2],
  [m |-> "blockchain.transaction.id_from_pos", p |-> <<"height", "height", "bool">>, min |-> 2],
  [m |-> "mempool.get_fee_histogram", p |-> <<>>, min |-> 0],
  [m |-> "server.add_peer", p |-> <<"features">>, min |-> 1],
  [m |-> "server.banner", p |-> <<>>, min |-> 0],
  [m |-> "server.donation_address", p |-> <<>>, min |-> 0],
  [m |-> "server.features", p |-> <<>>, min |-> 0],
  [m |-> "server.peers.subscribe", p |-> <<>>, min |-> 0],
  [m |-> "server.ping", p |-> <<>>, min |-> 0],
  [m |-> "server.version", p |-> <<"any", "any">>, min |-> 0] >>

VARIABLES last
Init == last = [m |-> "", v |-> <<>>, malformed |-> FALSE, hashbad |-> FALSE]
Base(k) == IF k = "hash" THEN "str_hex64_known" ELSE IF k = "bool" THEN "bool_false" ELSE IF k = "features" THEN "dict"
           ELSE IF k = "rawtx" THEN "str_hex128" ELSE IF k = "enum" THEN "str_enum" ELSE "int_ok"
Vectors(M) ==
  LET n == Len(M.p)
      full == IF n = 0 THEN {<<>>} ELSE [1..n -> Shapes]
  IN IF ~Pairwise \/ n <= 2 THEN full
     ELSE { v \in full : Cardinality({ k \in 1..n : v[k] # Base(M.p[k]) }) <= 2 }
Malformed(M, v) == \E k \in 1..Len(v) : v[k] \notin Accepts(M.p[k])
Request ==
  /\ last.m = ""          \* one request per behaviour: the state graph is the enumeration
  /\ \E i \in 1..Len(Methods) : \E v \in Vectors(Methods[i]) :
      /\ last' = [m |-> Methods[i].m, v |-> v, malformed |-> Malformed(Methods[i], v),
                   hashbad |-> \E k \in 1..Len(v) : Methods[i].p[k] = "hash" /\ v[k] \notin Accepts("hash")]
      /\ (Export => PrintT(<<"REQ", ToJson(last')>>))
Next == Request
Spec == Init /\ [][Next]_<<last>>

(* the obligations, stated over what the replay records for the request (RequestsTrace.tla checks them) *)
Outcomes == {"result", "protocol_error"}
TypeOK == last.m = "" \/ \E i \in 1..Len(Methods) : Methods[i].m = last.m
=============================================================================
