SPECIFICATION Spec
INVARIANT NeverInternal
INVARIANT MalformedChangesNothing
INVARIANT MalformedHashRefused
INVARIANT HeadersWithinLimit
INVARIANT HistoryAllOrNothing
INVARIANT GrowthDropsSubscription
CHECK_DEADLOCK FALSE
