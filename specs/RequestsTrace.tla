----------------------------- MODULE RequestsTrace -----------------------------
(* Validation of what a real ElectrumX session did with each enumerated request (raw JSON   *)
(* through a fake transport, against a populated index, next to a second client with live    *)
(* subscriptions), and of the reply-size limits (C17).                                      *)
EXTENDS Integers, Sequences, FiniteSets, Json, IOUtils, TLC
Recs == JsonDeserialize(IOEnv.TRACE_FILE)
VARIABLES tid, l
vars == <<tid, l>>
Init == tid \in 1..Len(Recs) /\ l = 1
Next == UNCHANGED vars
Spec == Init /\ [][Next]_vars
R == Recs[tid]
Min2(a, b) == IF a < b THEN a ELSE b
Max2(a, b) == IF a > b THEN a ELSE b

(* C16 *)
NeverInternal == R.kind = "request" => R.outcome \in {"result", "protocol_error"}
MalformedChangesNothing ==
  (R.kind = "request" /\ R.malformed) => /\ R.sub_changed = 0 /\ R.cache_changed = 0 /\ R.victim_changed = 0
MalformedHashRefused ==
  \* a malformed script hash / tx hash can have no meaning: it is refused, not answered
  (R.kind = "request" /\ R.hash_malformed) => R.outcome = "protocol_error"
(* C17, headers: H is the chain height *)
HeadersWithinLimit ==
  R.kind = "headers" =>
    LET avail == Max2(0, R.H + 1 - R.start)
        want == Min2(Min2(R.count, 2016), avail)
        last == R.start + want - 1
    IN IF R.error = 1
       THEN \* only a checkpoint outside [last, H] may be refused
            want > 0 /\ R.cp > 0 /\ ~(last <= R.cp /\ R.cp <= R.H)
       ELSE /\ R.ret = want /\ R.hexlen = want * 160 /\ R.max = 2016
            /\ (R.proof = 1) = (want > 0 /\ R.cp > 0)
            /\ (R.proof = 1 => (last <= R.cp /\ R.cp <= R.H /\ R.proof_ok = 1))
(* C17, history: len is the true confirmed history length, limit = max_send // 99 *)
HistoryAllOrNothing ==
  R.kind = "history" =>
    IF R.len < R.limit
    THEN /\ R.first = "full" /\ R.again = "full" /\ R.subscribe = "status" /\ R.sub_kept = 1 /\ R.status_ok = 1
    ELSE /\ R.first = "too_large" /\ R.again = "too_large" /\ R.subscribe = "too_large" /\ R.sub_kept = 0
GrowthDropsSubscription ==
  R.kind = "growth" => /\ R.sub_kept_after = 0 /\ R.notified_status = 0 /\ R.later = "too_large"
=============================================================================
