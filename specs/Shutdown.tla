------------------------------- MODULE Shutdown -------------------------------
(* Cancellation protocol of BlockProcessor.fetch_and_process_blocks (block_processor.py): *)
(* the main task, the shielded inner tasks of run_with_lock, state_lock, the ok flag,      *)
(* worker-thread jobs (advance_block, flush_dbs, backup_block) whose steps interleave      *)
(* freely with the tasks, one cancellation at any moment, and the handler                  *)
(*     stop_prefetching; run_with_lock(flush_if_safe()).                                    *)
(* Data is abstract: heights, which heights are still unflushed history, history rows as   *)
(* (height, flush id) pairs, the committed height.  A cancelled await on a job does not    *)
(* stop the job: its thread runs on.                                                       *)
(* LockedFlush = TRUE is the repaired code (catch-up and pre-reorg flushes go through      *)
(* run_with_lock, fix 7a6...); FALSE is the code as pinned, where they are awaited by the   *)
(* main task itself without the lock.                                                      *)
EXTENDS Integers, Sequences, FiniteSets, TLC

CONSTANTS MaxH,          \* daemon height: blocks 1..MaxH get advanced
          MaxReorg,      \* blocks undone by one optional reorg (0: none)
          LockedFlush

VARIABLES main,        \* pc of the main task
          inner,       \* [kind, pc] of the shielded inner task that holds / wants the lock, or none
          handler,     \* pc of the handler's inner task
          lock,        \* "free" | "inner" | "handler"
          jobs,        \* function job id -> [kind, st, owner]  (st: stage of the job's thread)
          ok, cancelled, memH, stored, unfl, rows, hfc, toUndo, flushing
vars == <<main, inner, handler, lock, jobs, ok, cancelled, memH, stored, unfl, rows, hfc, toUndo, flushing>>

NoInner == [kind |-> "none", pc |-> "none"]
(* asyncio.shield(run_locked()) schedules the inner task before the caller suspends, so its   *)
(* first step - taking the (free) lock and submitting its job - runs before any cancellation *)
(* can be delivered: spawning and acquiring is one step                                      *)
KindOf(k) == IF k = "adv" THEN "advance" ELSE IF k = "backup" THEN "backup" ELSE "flush"
Spawn(k) == /\ lock = "free" /\ lock' = "inner" /\ inner' = [kind |-> k, pc |-> "job1"]
            /\ jobs' = Append(jobs, [kind |-> KindOf(k), st |-> "queued", owner |-> "inner"])
Init == /\ main = "poll" /\ inner = NoInner /\ handler = "none" /\ lock = "free"
        /\ jobs = <<>> /\ ok = TRUE /\ cancelled = FALSE /\ memH = 0 /\ stored = 0
        /\ unfl = {} /\ rows = {} /\ hfc = 0 /\ toUndo = 0 /\ flushing = 0

NewJob(kind, owner) == jobs' = Append(jobs, [kind |-> kind, st |-> "queued", owner |-> owner])
JobDone(owner) == \E j \in 1..Len(jobs) : jobs[j].owner = owner /\ jobs[j].st = "done"
NoJobOf(owner) == ~\E j \in 1..Len(jobs) : jobs[j].owner = owner /\ jobs[j].st # "done" /\ jobs[j].st # "reaped"
Reap(owner) == jobs' = [j \in 1..Len(jobs) |-> IF jobs[j].owner = owner /\ jobs[j].st = "done"
                                               THEN [jobs[j] EXCEPT !.st = "reaped"] ELSE jobs[j]]

(* ------------------------------ main task ------------------------------ *)
(* next_block_hashes: blocks left -> run_with_lock(advance_and_maybe_flush); else on_caught_up *)
MainPoll ==
  /\ main = "poll" /\ ~cancelled
  /\ IF memH < MaxH THEN Spawn("adv") /\ main' = "await_inner"
     ELSE IF LockedFlush THEN Spawn("cuflush") /\ main' = "await_inner"
     ELSE /\ NewJob("flush", "main") /\ main' = "await_job" /\ UNCHANGED <<inner, lock>>
  /\ UNCHANGED <<handler, ok, cancelled, memH, stored, unfl, rows, hfc, toUndo, flushing>>
(* the unlocked flush of the pinned code, awaited by the main task itself *)
MainJobDone ==
  /\ main = "await_job" /\ ~cancelled /\ JobDone("main") /\ Reap("main")
  /\ main' = IF toUndo > 0 THEN "reorg" ELSE "sleep"
  /\ UNCHANGED <<inner, handler, lock, ok, cancelled, memH, stored, unfl, rows, hfc, toUndo, flushing>>
MainInnerDone ==
  /\ main = "await_inner" /\ ~cancelled /\ inner.pc = "finished"
  /\ main' = IF inner.kind = "adv" THEN "poll"
             ELSE IF inner.kind = "cuflush" THEN "sleep"
             ELSE "reorg"                       \* rgflush, backup
  /\ inner' = NoInner
  /\ UNCHANGED <<handler, lock, jobs, ok, cancelled, memH, stored, unfl, rows, hfc, toUndo, flushing>>
(* caught up and idle; a reorg (natural or forced) may be requested once *)
MainSleep ==
  /\ main = "sleep" /\ ~cancelled
  /\ \/ /\ MaxReorg > 0 /\ toUndo = 0 /\ memH = MaxH /\ hfc < 4
        /\ \E n \in 1..MaxReorg : toUndo' = n
        /\ IF LockedFlush THEN Spawn("rgflush") /\ main' = "await_inner"
           ELSE NewJob("flush", "main") /\ main' = "await_job" /\ UNCHANGED <<inner, lock>>
     \/ /\ main' = "idle" /\ UNCHANGED <<inner, jobs, toUndo, lock>>
  /\ UNCHANGED <<handler, ok, cancelled, memH, stored, unfl, rows, hfc, flushing>>
MainReorg ==
  /\ main = "reorg" /\ ~cancelled
  /\ IF toUndo > 0 /\ memH > 0
     THEN Spawn("backup") /\ main' = "await_inner"
     ELSE UNCHANGED <<inner, lock, jobs>> /\ main' = "idle"
  /\ UNCHANGED <<handler, ok, cancelled, memH, stored, unfl, rows, hfc, toUndo, flushing>>

(* ----------------------- shielded inner task (run_locked) ----------------------- *)
InnerJobDone ==
  /\ inner.pc \in {"job1", "job2"} /\ JobDone("inner") /\ Reap("inner")
  /\ \/ \* after advance_block the cache-size task may have asked for a flush
        /\ inner.kind = "adv" /\ inner.pc = "job1"
        /\ inner' = [inner EXCEPT !.pc = "flushq"] /\ UNCHANGED lock
     \/ /\ inner' = [inner EXCEPT !.pc = "finished"] /\ lock' = "free"
  /\ UNCHANGED <<main, handler, ok, cancelled, memH, stored, unfl, rows, hfc, toUndo, flushing>>
InnerFlushQ ==
  /\ inner.pc = "flushq" /\ NewJob("flush", "inner") /\ inner' = [inner EXCEPT !.pc = "job2"]
  /\ UNCHANGED <<main, handler, lock, ok, cancelled, memH, stored, unfl, rows, hfc, toUndo, flushing>>

(* ------------------------------ worker threads ------------------------------ *)
JobStep ==
  \E j \in 1..Len(jobs) :
    LET job == jobs[j]
        Set(st) == jobs' = [jobs EXCEPT ![j].st = st]
    IN \/ /\ job.kind = "advance" /\ job.st = "queued" /\ Set("mid") /\ ok' = FALSE
          /\ UNCHANGED <<memH, stored, unfl, rows, hfc, toUndo, flushing>>
       \/ /\ job.kind = "advance" /\ job.st = "mid" /\ Set("done") /\ ok' = TRUE
          /\ memH' = memH + 1 /\ unfl' = unfl \cup {memH + 1}
          /\ UNCHANGED <<stored, rows, hfc, toUndo, flushing>>
       \* flush_dbs: no-op when already at that height, else files, history (count, commit, clear), UTXO commit
       \/ /\ job.kind = "flush" /\ job.st = "queued"
          /\ IF memH = stored THEN Set("done") /\ UNCHANGED flushing
             ELSE Set("hist_a") /\ flushing' = flushing + 1
          /\ UNCHANGED <<ok, memH, stored, unfl, rows, hfc, toUndo>>
       \/ /\ job.kind = "flush" /\ job.st = "hist_a" /\ Set("hist_b") /\ hfc' = hfc + 1
          /\ UNCHANGED <<ok, memH, stored, unfl, rows, toUndo, flushing>>
       \/ /\ job.kind = "flush" /\ job.st = "hist_b" /\ Set("hist_c")
          /\ rows' = rows \cup { <<h, hfc>> : h \in unfl }
          /\ UNCHANGED <<ok, memH, stored, unfl, hfc, toUndo, flushing>>
       \/ /\ job.kind = "flush" /\ job.st = "hist_c" /\ Set("utxo") /\ unfl' = {}
          /\ UNCHANGED <<ok, memH, stored, rows, hfc, toUndo, flushing>>
       \/ /\ job.kind = "flush" /\ job.st = "utxo" /\ Set("done") /\ stored' = memH /\ flushing' = flushing - 1
          /\ UNCHANGED <<ok, memH, unfl, rows, hfc, toUndo>>
       \* backup_block: undo in memory (ok false meanwhile), history rollback, UTXO rollback
       \/ /\ job.kind = "backup" /\ job.st = "queued" /\ Set("mid") /\ ok' = FALSE
          /\ UNCHANGED <<memH, stored, unfl, rows, hfc, toUndo, flushing>>
       \/ /\ job.kind = "backup" /\ job.st = "mid" /\ Set("done") /\ ok' = TRUE
          /\ memH' = memH - 1 /\ stored' = memH - 1 /\ toUndo' = toUndo - 1 /\ hfc' = hfc + 1
          /\ rows' = { r \in rows : r[1] < memH }
          /\ UNCHANGED <<unfl, flushing>>
JobStepAct == JobStep /\ UNCHANGED <<main, inner, handler, lock, cancelled>>

(* ------------------------------ shutdown ------------------------------ *)
(* the cancellation reaches the main task at whatever await it is in *)
Cancel ==
  /\ ~cancelled /\ cancelled' = TRUE /\ main # "done"
  /\ main' = "handler" /\ handler' = "want"
  /\ UNCHANGED <<inner, lock, jobs, ok, memH, stored, unfl, rows, hfc, toUndo, flushing>>
HandlerAcquire ==
  /\ handler = "want" /\ lock = "free" /\ lock' = "handler"
  /\ IF ok THEN NewJob("flush", "handler") /\ handler' = "job"        \* flush_if_safe
     ELSE handler' = "finished" /\ UNCHANGED jobs
  /\ UNCHANGED <<main, inner, ok, cancelled, memH, stored, unfl, rows, hfc, toUndo, flushing>>
HandlerJobDone ==
  /\ handler = "job" /\ JobDone("handler") /\ Reap("handler") /\ handler' = "finished"
  /\ UNCHANGED <<main, inner, lock, ok, cancelled, memH, stored, unfl, rows, hfc, toUndo, flushing>>
HandlerEnd ==
  /\ handler = "finished" /\ main = "handler" /\ main' = "done" /\ lock' = "free" /\ handler' = "none"
  /\ UNCHANGED <<inner, jobs, ok, cancelled, memH, stored, unfl, rows, hfc, toUndo, flushing>>

Next == MainPoll \/ MainJobDone \/ MainInnerDone \/ MainSleep \/ MainReorg \/ InnerJobDone
        \/ InnerFlushQ \/ JobStepAct \/ Cancel \/ HandlerAcquire \/ HandlerJobDone \/ HandlerEnd
Spec == Init /\ [][Next]_vars

(* ------------------------------ properties (C06) ------------------------------ *)
AllJobsEnded == \A j \in 1..Len(jobs) : jobs[j].st \in {"done", "reaped"}
Stopped == main = "done" /\ AllJobsEnded /\ inner.pc \in {"none", "finished", "want"}
(* two flush_dbs never run at once on the same containers *)
FlushExclusive == flushing <= 1
(* reopening gives a consistent index: every height up to the stored one exactly once in the history *)
ShutdownConsistent ==
  Stopped => /\ \A h \in 1..stored : Cardinality({ r \in rows : r[1] = h }) = 1
             /\ \A r \in rows : r[1] <= stored \/ r[2] > hfc
(* finished work is kept: the stored height is the height in memory *)
KeepsFinishedWork == (Stopped /\ ok) => stored = memH
(* the handler only flushes when memory is consistent, and holds the lock while it does *)
SafeFlush == (handler = "job") => lock = "handler"
=============================================================================
