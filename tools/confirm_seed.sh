#!/bin/sh
# confirm_seed.sh <seed dir with patch.diff + demo*.py>: confirms, in a throw-away worktree of /repo HEAD,
# that the patch applies, the pinned suite still passes with it, the demo fails with it and passes without.
set -u
d="$(cd "$1" && pwd)"
wt=$(mktemp -d /tmp/cs-XXXXXX); rmdir "$wt"
git -C /repo worktree add -q --detach "$wt" HEAD || exit 2
mkdir -p "$wt/_seed/m"
for f in "$d"/*; do sed "s#/tmp/wt-C[0-9]*[a-z]*#$wt#g" "$f" > "$wt/_seed/m/$(basename "$f")"; done
demo=$(ls "$wt"/_seed/m/demo*.py | head -1)
run_demo() { (cd "$wt" && if echo "$demo" | grep -q _test; then timeout 900 /venv/bin/python -m pytest -q -p no:cacheprovider "$demo" >/dev/null 2>&1; else timeout 900 /venv/bin/python "$demo" >/dev/null 2>&1; fi); }
if git -C "$wt" apply "$d/patch.diff"; then
  suite=$(cd "$wt" && /venv/bin/python -m pytest -q -p no:cacheprovider tests 2>&1 | tail -1)
  run_demo; with=$?
  git -C "$wt" checkout -q -- .
  run_demo; without=$?
  res="suite_with_patch='$suite' demo_with_patch_exit=$with demo_without_patch_exit=$without"
else
  res="PATCH DOES NOT APPLY"
fi
git -C /repo worktree remove --force "$wt"
echo "$res"
