#!/usr/bin/env python3
'''Generates /verif/MANIFEST.json from the table below (kept here so that the manifest stays
consistent and valid while checks are being added).'''
import json
import os

HOME = os.path.dirname(os.path.dirname(os.path.abspath(__file__)))

BASELINE_OFF = ('cd /repo && env -u ELECTRUMX_VERIF_TRACE /venv/bin/python -m pytest -ra -q -p no:cacheprovider '
                '--timeout=900 --continue-on-collection-errors')

# pid -> dict(level, text, note, technique, design_ref, thorough=True)
CHECKS = {}


def chk(pid, level, text, note, technique, design_ref):
    CHECKS[pid] = dict(level=level, text=text, note=note, technique=technique, design_ref=design_ref)


chk('C20', 'model_checking',
    'Notify.tla (transcription of Notifications plus a model of the callers: block processor '
    'catch-up/flush/reorg loop, mempool refresh with delayed hand-over, start-up) is checked '
    'exhaustively by TLC for OnlyAgreed and NothingLost, also under an unconstrained caller; every '
    'boundary-call history of the model up to the bound is exported, replayed on the real class and '
    'the recorded calls/notifications are validated by TLC against a property-level monitor '
    '(NotifyPropTrace.tla) and, for drift, against the class transcription (NotifyImplTrace.tla).',
    'TLC; bounds MaxH<=3/4, <=5-6 boundary calls exhaustively (longer by simulation/random); the '
    'environment model over-approximates the callers.',
    'TLA+ model checking (TLC) + spec-to-code behaviour replay + TLC trace validation',
    'DESIGN.md section 5 C20')

NOT_BUILT = 'check not built yet (see DESIGN.md section 9 for the build order)'


def main():
    with open(os.path.join(HOME, 'properties.jsonl')) as f:
        pids = [json.loads(line)['id'] for line in f if line.strip()]
    checks = []
    for pid in pids:
        c = CHECKS.get(pid)
        if not c:
            continue
        checks.append({
            'property_id': pid,
            'quick_cmd': f'./vf check {pid} --tier quick',
            'thorough_cmd': f'./vf check {pid} --tier thorough',
            'evidence_file': f'/verif/evidence/{pid}.json',
            'replay_cmd_template': './vf replay {path}',
            'engine': 'vf',
            'level_claimed': {'category': c['level'], 'text': c['text'], 'design_ref': c['design_ref']},
            'level_note': c['note'],
            'technique': c['technique'],
        })
    manifest = {
        'version': 1,
        'setup_cmd': './vf setup',
        'hooks': {
            'guard': 'ELECTRUMX_VERIF_TRACE',
            'enable': 'checks import electrumx from /repo\'s working tree with ELECTRUMX_VERIF_TRACE=1 in the '
                      'environment (set by ./vf); nothing is built or installed',
            'baseline_off_cmd': BASELINE_OFF,
            'source_commits': HOOK_COMMITS,
            'add_only': True,
        },
        'engines': [{
            'name': 'vf', 'path': '/verif/vf',
            'serves_properties': [c['property_id'] for c in checks],
            'kind_free_text': 'TLA+ specifications checked with TLC; behaviours exported from TLC are replayed '
                              'on the real Python classes under a deterministic harness; recorded traces are '
                              'validated by TLC against trace specifications',
        }],
        'checks': checks,
        'not_applicable': [{'property_id': pid, 'reason': NOT_APPLICABLE.get(pid, NOT_BUILT)}
                           for pid in pids if pid not in CHECKS],
        'notes': 'Exit status 2 = machinery failure (never a verdict). Fixes of genuine defects and open '
                 'findings are listed in /verif/known_findings.json.',
    }
    with open(os.path.join(HOME, 'MANIFEST.json'), 'w') as f:
        json.dump(manifest, f, indent=1)
    print(f'{len(checks)} checks, {len(manifest["not_applicable"])} not applicable')


HOOK_COMMITS = []
NOT_APPLICABLE = {}

if __name__ == '__main__':
    main()
