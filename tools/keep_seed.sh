#!/bin/sh
# keep_seed.sh <PID> [suffix]: copy /tmp/wt-<PID><suffix>/_seed/m* to /verif/seeded/, confirm each, remove the worktree
p="$1"; s="${2:-}"; wt="/tmp/wt-$p$s"
for m in "$wt"/_seed/m*; do
  [ -d "$m" ] || continue
  name="$p$s-$(basename "$m")"
  mkdir -p "/verif/seeded/$name"; cp "$m"/* "/verif/seeded/$name/"
  r=$(/verif/tools/confirm_seed.sh "/verif/seeded/$name")
  echo "$name: $r"
  echo "$r" > "/verif/seeded/$name/confirmed.txt"
done
git -C /repo worktree remove --force "$wt"
