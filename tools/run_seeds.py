#!/usr/bin/env python3
'''Applies every seeded change under /verif/seeded/ to a scratch worktree of /repo's HEAD (SEED_REPO, default
/tmp/repo-seeds, created and removed here; the checks are pointed at it through VERIF_REPO), one at a time, runs the quick check of
the property it breaks (and optionally other checks), and writes /verif/seeded/RESULTS.json + RESULTS.md.
Usage: tools/run_seeds.py [name ...]'''
import json, os, subprocess, sys, time
HOME = '/verif'
TABLE_ONLY = sys.argv[1:] == ['--table']
names = [] if TABLE_ONLY else sys.argv[1:] or sorted(n for n in os.listdir(f'{HOME}/seeded') if os.path.isdir(f'{HOME}/seeded/{n}'))
try:
    results = json.load(open(f'{HOME}/seeded/RESULTS.json'))
except Exception:
    results = {}
REPO = os.environ.get('SEED_REPO', '/tmp/repo-seeds')
mine = {}
subprocess.run(['git', '-C', '/repo', 'worktree', 'remove', '--force', REPO], capture_output=True)
assert TABLE_ONLY or subprocess.run(['git', '-C', '/repo', 'worktree', 'add', '-q', '--detach', REPO, 'HEAD']).returncode == 0
ENV = dict(os.environ, VERIF_REPO=REPO, VERIF_EVIDENCE_DIR=REPO + '-evidence', VERIF_REPLAY_DIR=REPO + '-replays')
for n in names:
    d = f'{HOME}/seeded/{n}'
    meta = json.load(open(f'{d}/meta.json')) if os.path.exists(f'{d}/meta.json') else {}
    pid = meta.get('property') or n.split('-')[0][:3]
    checks = meta.get('also_checked_by', []) and [pid] + meta['also_checked_by'] or [pid]
    r = subprocess.run(['git', '-C', REPO, 'apply', f'{d}/patch.diff'], capture_output=True, text=True)
    if r.returncode:
        results[n] = {'property': pid, 'applies': False, 'error': r.stderr[-300:]}
        print(n, 'PATCH DOES NOT APPLY')
        continue
    res = {'property': pid, 'applies': True, 'checks': {}}
    try:
        for c in checks:
            t0 = time.time()
            p = subprocess.run([f'{HOME}/vf', 'check', c, '--tier', 'quick'], capture_output=True, text=True, cwd=HOME, timeout=3000, env=ENV)
            viol = [l for l in p.stdout.splitlines() if l.startswith('VIOLATION')]
            detail = [l.strip() for l in p.stdout.splitlines() if l.startswith('  ')][:1]
            res['checks'][c] = {'exit': p.returncode, 'violations': len(viol), 'first': (detail[0][:300] if detail else ''),
                                'wall_s': round(time.time() - t0)}
            print(n, c, 'exit', p.returncode, 'violations', len(viol))
    finally:
        subprocess.run(['git', '-C', REPO, 'checkout', '--', '.'])
    results[n] = res
    try:   # (another instance may be running on other seeds: merge, never overwrite)
        cur = json.load(open(f'{HOME}/seeded/RESULTS.json'))
    except Exception:
        cur = {}
    mine[n] = res
    cur.update(mine)
    results = cur
    json.dump(results, open(f'{HOME}/seeded/RESULTS.json', 'w'), indent=1)
subprocess.run(['git', '-C', '/repo', 'worktree', 'remove', '--force', REPO], capture_output=True)
lines = ['| seeded change | property | caught by (quick check, exit 1 + VIOLATION) | first report |', '|---|---|---|---|']
for n in sorted(results):
    r = results[n]
    if not r.get('applies'):
        lines.append(f'| {n} | {r["property"]} | patch no longer applies | |')
        continue
    caught = [c for c, v in r['checks'].items() if v['exit'] == 1 and v['violations']]
    missed = [c for c, v in r['checks'].items() if not (v['exit'] == 1 and v['violations'])]
    first = next((v['first'] for v in r['checks'].values() if v['first']), '')
    lines.append(f'| {n} | {r["property"]} | {", ".join(caught) or "-"}{" (missed by " + ", ".join(missed) + ")" if missed else ""} | {first[:160].replace("|", "/")} |')
open(f'{HOME}/seeded/RESULTS.md', 'w').write('\n'.join(lines) + '\n')
