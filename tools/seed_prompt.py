#!/usr/bin/env python3
'''Prints the prompt given to a fresh sub-agent that seeds property-breaking changes.
Only the property text and the worktree path go in: nothing from /verif.'''
import json, sys
pid = sys.argv[1]
wt = sys.argv[2]
n = int(sys.argv[3]) if len(sys.argv) > 3 else 2
for line in open('/verif/properties.jsonl'):
    p = json.loads(line)
    if p['id'] == pid:
        break
print(f'''You are helping to evaluate a verification effort by seeding realistic defects (mutation testing) in a scratch copy of an open-source project. This is authorised, sandboxed test-quality work; nothing leaves this machine.

The project is ElectrumX (kyuupichan/electrumx, an asyncio Electrum-protocol server indexing a Bitcoin SV chain into LevelDB). You have your OWN scratch git worktree of it at {wt} (Python sources under {wt}/electrumx, tests under {wt}/tests). Work ONLY inside {wt}. Never read or touch /repo or /verif (they are off limits: your result must be independent of them). There is no network.

Run Python with /venv/bin/python (it has the project's dependencies: aiorpcx, plyvel, pylru, attrs, aiohttp, pytest, pytest-asyncio). The existing test suite is run with:
    cd {wt} && /venv/bin/python -m pytest -q -p no:cacheprovider
It must report "142 passed" (one test, tests/server/test_compaction.py::test_compaction, fails order-dependently on the pristine tree too: ignore that one).

PROPERTY ({p['id']}): {p['title']}
Statement: {p['statement']}
Quantified over: {p['quantifier']['text']}
Relevant files: {', '.join(p['anchors']['files'])}

TASK: produce {n} DIFFERENT source changes (each one independent of the other, each a small edit of a few lines to the files under {wt}/electrumx or the top-level scripts - not to the tests) such that each change:
  1. BREAKS the property above on the real code (the server would then violate the statement for some input / schedule / crash point / history),
  2. still imports/compiles, and the existing test suite still gives 142 passed with the change applied,
  3. is REALISTIC (the kind of slip a maintainer could make in a refactoring or optimisation: an off-by-one, a dropped or reordered step, a wrong comparison, a missing invalidation, a condition narrowed or widened) and NOT exposed by ordinary use at once: it must need something specific to manifest - a particular interleaving, a crash or fault at a particular point, a multi-step sequence of operations, an unusual input, or two cooperating code sites that each look fine alone. The {n} changes should exercise different mechanisms behind the property.
For each change also write a DEMONSTRATION: a self-contained Python script or pytest file that drives the real code (e.g. real BlockProcessor/DB over a temporary LevelDB directory with a small fake daemon object, or the real class in question) and FAILS (non-zero exit / failing assertion) with the change applied and PASSES on the pristine worktree. Verify both directions yourself by actually running it (apply the change, run; `git -C {wt} stash` or `git -C {wt} checkout -- .`, run again).

DELIVERABLES, all under {wt}/_seed/ (create the directory):
  _seed/m1/patch.diff   (output of `git -C {wt} diff` for change 1 alone, relative to the pristine HEAD)
  _seed/m1/demo.py      (or demo_test.py) the demonstration; say in a comment at the top how to run it
  _seed/m1/meta.json    {{"property": "{p['id']}", "summary": "...what was changed...", "needs": "...what is needed for it to manifest...", "ran": ["commands you ran and their outcome"]}}
  and the same under _seed/m2/ {'(and m3, ... as requested)' if n > 2 else ''}.
Leave the worktree's tracked files pristine at the end (git -C {wt} checkout -- .) with only the untracked _seed/ directory added. Make sure each patch.diff applies cleanly with `git apply` to the pristine worktree.

Keep scratch files (temporary databases etc.) under /dev/shm or /tmp in directories you delete afterwards. Do not spend effort on prose: a short final report (what each change is, what it needs to manifest, confirmation that the suite still passes and that the demo fails with / passes without the change) is enough.''')
