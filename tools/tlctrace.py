#!/usr/bin/env python3
'''Compact view of a TLC counterexample: action names and the variables each step changed.'''
import re, sys
text = sys.stdin.read()
m = re.search(r'Error: (Invariant \w+ is violated|.*)', text)
print(m.group(0) if m else 'no error line')
parts = re.split(r'\nState (\d+): <?([^\n>]*)>?\n', text)
prev = {}
only = set(sys.argv[1:])
for k in range(1, len(parts) - 2, 3):
    num, act, body = parts[k], parts[k + 1], parts[k + 2]
    body = body.split('\n\n')[0]
    vars_ = {}
    cur = None
    for line in body.split('\n'):
        mm = re.match(r'/\\ (\w+) = (.*)', line)
        if mm:
            cur = mm.group(1); vars_[cur] = mm.group(2)
        elif cur:
            vars_[cur] += ' ' + line.strip()
    act = act.split(' line')[0]
    ch = {v: x for v, x in vars_.items() if prev.get(v) != x and (not only or v in only)}
    print(f'--- {num} {act}')
    for v, x in ch.items():
        print(f'     {v} = {x[:300]}')
    prev = vars_
