#!/usr/bin/env python3
'''python3-vt tools/validate.py : validate MANIFEST.json and every evidence file against the schemas.'''
import json, glob, sys, jsonschema
ok = True
m = json.load(open('/verif/MANIFEST.json'))
jsonschema.validate(m, json.load(open('/root/.vp/MANIFEST.schema.json')))
es = json.load(open('/root/.vp/EVIDENCE.schema.json'))
for c in m['checks']:
    try:
        e = json.load(open(c['evidence_file']))
        jsonschema.validate(e, es)
        if e['level'] != c['level_claimed']['category']:
            print('LEVEL MISMATCH', c['property_id'], e['level'], c['level_claimed']['category']); ok = False
    except Exception as ex:
        print('BAD', c['property_id'], str(ex)[:300]); ok = False
print('validate:', 'ok' if ok else 'FAILED', len(m['checks']), 'checks')
sys.exit(0 if ok else 1)
